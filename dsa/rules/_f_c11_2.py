"""C11.R10 -- every duct wall is solved with the conductivity of the wall
material at THAT wall's own mean temperature.

Clause.  The closed-form slab solution of wall w (c1, c2, q L^2 / 8k) contains
the wall conductivity k.  The duct material is ONE mutable object per region
(`self.duct`, a `Material`): `self.duct.thermal_conductivity` is whatever the
last `self.duct.update(T)` left there.  "Steady conduction through wall w"
therefore needs, for every number of walls n and every wall w < n:

    every value read from the duct material that flows into the stored
    temperatures of wall w (`self.temp['duct_mw'][w]`,
    `self.temp['duct_surf'][w, .]`) was read while the material was in the
    state `update(self.avg_duct_mw_temp[w])` -- set inside the solver itself
    (not left over by a caller), on every path, for this wall and no other.

Breaking it (update hoisted out of the duct loop, update of the wrong index,
update after the read, update under a guard, a conductivity cached across
walls, an update at another temperature, a lazy update wrapper) leaves the
overall wall heat balance intact -- k cancels out of it -- but Fourier's law
across the wall and the mid-wall value of the parabola fail for every wall
whose mean temperature differs from the one the material was evaluated at.

Technique.  Abstract execution of the solver over a finite index domain by
the checker's own interpreter (nothing of /repo is imported or run): the
number of walls is fixed to n = 1..4 in turn (the domain is read off the
class's `DASSH_Region.__init__(..., n_bypass, ...)` call: no bypass argument
-> one wall), `range`/`enumerate`/`zip` loops over it are unrolled, integers
are concrete, everything else is an unknown that only carries a *taint*: the
set of material states under which duct-material properties that flowed into
it were read.  The material state is a set of {ENTRY (left by a caller),
avg_duct_mw_temp[w] set at call site s, another temperature set at s};
tests the integers do not decide fork the path; `self.<method>(...)` calls
whose callee (transitively) touches `self.duct` are executed the same way
(so the `_update_duct` wrapper is decided, not trusted), other calls are
opaque and propagate the taint of their arguments.  At every store into a
wall-temperature array the wall index is evaluated and compared with the
taint of the stored value.  Renaming, temporaries, `enumerate`, helper
extraction, a local for k, branch swaps, gathering k per wall in a first
loop ... all evaluate to the same taints.
"""
import ast

from ..core import AnalysisError, FuncInfo, dotted, src
from ..cfg import default_terminator

PROPS = ('C11',)
RULE = 'C11.R10'
N_WALLS = (1, 2, 3, 4)
SOLVERS = (('region_rodded', 'RoddedRegion._calc_duct_temp'),
           ('region_unrodded', 'SingleNodeHomogeneous._calc_duct_temp'))
WALL_TEMPS = ('duct_mw', 'duct_surf')
LEN_N_ATTRS = ('duct_ftf',)        # sequences with one entry per wall
MAX_STATES = 400
MAX_DEPTH = 6
MAX_UNROLL = 64


def _s(n):
    return ' '.join(src(n).split())


# ---------------------------------------------------------------------------
# abstract values (hashable tuples)

def C(v):
    return ('c', v)


AVG = ('avg',)              # self.avg_duct_mw_temp
DUCT = ('duct',)            # the region's duct Material object
SELF = ('self',)
TEMPS = ('temps',)          # self.temp
NOTAINT = frozenset()


def UNK(t=NOTAINT):
    return ('unk', frozenset(t))


def LIST(items):
    return ('list', tuple(items))


def taint(v):
    if v[0] == 'unk':
        return v[1]
    if v[0] == 'list':
        out = set()
        for x in v[1]:
            out |= taint(x)
        return frozenset(out)
    return NOTAINT


def union_taint(vals):
    out = set()
    for v in vals:
        out |= taint(v)
    return frozenset(out)


class _Abort(Exception):
    """The path ends (raise / sys.exit / logged error)."""


class State:
    __slots__ = ('mat', 'env')

    def __init__(self, mat, env):
        self.mat = mat          # frozenset of material states
        self.env = env          # name / dotted path -> value

    def copy(self):
        return State(self.mat, dict(self.env))

    def key(self):
        return (self.mat, tuple(sorted(self.env.items(), key=repr)))


def _dedup(states):
    out, seen = [], set()
    for s in states:
        k = s.key()
        if k not in seen:
            seen.add(k)
            out.append(s)
    if len(out) > MAX_STATES:
        raise AnalysisError('C11.R10: more than %d abstract paths' %
                            MAX_STATES)
    return out


class Frame:
    def __init__(self, fi, cls):
        self.fi, self.cls = fi, cls
        self.ret = []           # (state, value)
        self.loops = []         # stack of {'brk': [], 'cont': []}


class RawIndex:
    """The methods of the package as WRITTEN.  The loader canonicalises every
    function towards its recorded form under the assumption that attribute
    look-ups on `self` are pure and repeatable; `self.duct.<property>` is not
    (it changes with every material update), and moving such a read across an
    update is exactly what this rule has to see.  The rule therefore executes
    the un-canonicalised syntax trees; it does not need a particular
    spelling."""

    def __init__(self, repo):
        self.repo = repo
        self.methods = {}       # (module, class) -> {name: FuncInfo}
        self.funcs = {}         # module -> {name: FuncInfo}
        for m in repo.modules.values():
            if '.tests' in m.name:
                continue
            try:
                tree = ast.parse(m.text)
            except SyntaxError as e:
                raise AnalysisError('cannot parse %s: %s' % (m.rel, e))
            self.funcs[m.name] = {}
            for st in tree.body:
                if isinstance(st, ast.ClassDef):
                    ci = m.classes.get(st.name)
                    tab = self.methods.setdefault((m.name, st.name), {})
                    for d in st.body:
                        if isinstance(d, (ast.FunctionDef,
                                          ast.AsyncFunctionDef)):
                            f = FuncInfo(m, d, ci)
                            if d.name not in tab or not f.is_setter:
                                tab[d.name] = f
                elif isinstance(st, (ast.FunctionDef, ast.AsyncFunctionDef)):
                    self.funcs[m.name][st.name] = FuncInfo(m, st)

    def lookup(self, cls, name):
        for c in self.repo.mro(cls):
            f = self.methods.get((c.mod.name, c.name), {}).get(name)
            if f is not None:
                return f
        return None

    def raw(self, fi):
        """The function as written (fi comes from the canonicalised tree)."""
        if fi.cls is None:
            f = self.funcs.get(fi.mod.name, {}).get(fi.name)
        else:
            f = self.methods.get((fi.mod.name, fi.cls.name), {}).get(fi.name)
        if f is None:
            raise AnalysisError('%s: not found in the source as written'
                                % fi.full)
        return f


class Interp:
    """One abstract execution of a solver for a fixed number of walls."""

    def __init__(self, ix, cls, n):
        self.ix, self.repo, self.cls, self.n = ix, ix.repo, cls, n
        self.sites = []         # (fi, node) of material updates
        self.site_ids = {}
        self.stack = []         # (fi, call node) of abstractly executed calls
        self.frames = []
        self.closures = []
        self.sinks = []         # (fi, stmt, kind, wall, taints)
        self.reads = 0
        self._touch = {}

    # -- material ---------------------------------------------------------
    def _site(self, fi, node):
        if self.stack:
            fi, node = self.stack[0]
        k = id(node)
        if k not in self.site_ids:
            self.site_ids[k] = len(self.sites)
            self.sites.append((fi, node))
        return self.site_ids[k]

    def update(self, st, arg, node):
        fi = self.frames[-1].fi
        sid = self._site(fi, node)
        if arg[0] == 'avgelem':
            st.mat = frozenset([('avg', arg[1], sid)])
        else:
            st.mat = frozenset([('other', sid)])

    # -- does a function touch the duct material --------------------------
    def touches(self, fi, cls):
        key = (fi.full, cls.full if cls else '')
        if key in self._touch:
            return self._touch[key]
        self._touch[key] = False        # cycles: decided by the other members
        res = False
        for n in ast.walk(fi.node):
            if isinstance(n, ast.Attribute) and n.attr == 'duct':
                res = True
                break
            if isinstance(n, ast.Attribute) and isinstance(n.value, ast.Name) \
                    and n.value.id == 'self' and cls is not None:
                m = self.ix.lookup(cls, n.attr)
                if m is not None and m.node is not fi.node and \
                        self.touches(m, cls):
                    res = True
                    break
        self._touch[key] = res
        return res

    # -- expressions ------------------------------------------------------
    def ev(self, node, st):
        m = getattr(self, 'ev_' + type(node).__name__, None)
        if m is not None:
            return m(node, st)
        return self.generic(node, st)

    def generic(self, node, st):
        vals = [self.ev(c, st) for c in ast.iter_child_nodes(node)
                if isinstance(c, ast.expr)]
        return UNK(union_taint(vals))

    def ev_Constant(self, node, st):
        return C(node.value)

    def ev_Name(self, node, st):
        if node.id in st.env:
            return st.env[node.id]
        if node.id == 'self':
            return SELF
        return UNK()

    def ev_Attribute(self, node, st):
        d = dotted(node)
        if d is not None and d in st.env:
            return st.env[d]
        base = self.ev(node.value, st)
        a = node.attr
        if base == SELF:
            if a == 'duct':
                return DUCT
            if a == 'avg_duct_mw_temp':
                return AVG
            if a == 'temp':
                return TEMPS
            if a == 'n_duct':
                return C(self.n)
            if a == 'n_bypass':
                return C(self.n - 1)
            if a in LEN_N_ATTRS:
                return LIST([UNK()] * self.n)
            m = self.ix.lookup(self.cls, a)
            if m is not None and m.is_property and not m.is_setter and \
                    self.touches(m, self.cls):
                return self.call_function(m, [SELF], {}, st, node)
            return UNK()
        if base == DUCT:
            self.reads += 1
            return UNK(st.mat)
        return UNK(taint(base))

    def _index(self, sl, st):
        if isinstance(sl, ast.Tuple):
            return [self._index(e, st) for e in sl.elts]
        if isinstance(sl, ast.Slice):
            parts = [None if p is None else self.ev(p, st)
                     for p in (sl.lower, sl.upper, sl.step)]
            if all(p is None for p in parts):
                return ('fullslice',)
            if all(p is None or (p[0] == 'c' and isinstance(p[1], int) and
                                 not isinstance(p[1], bool)) for p in parts):
                return ('cslice',) + tuple(None if p is None else p[1]
                                           for p in parts)
            return ('slice',)
        return self.ev(sl, st)

    def _wall(self, idx):
        """Wall number of the first index of a wall-temperature array."""
        first = idx[0] if isinstance(idx, list) else idx
        if first[0] == 'c' and isinstance(first[1], int) and \
                not isinstance(first[1], bool):
            k = first[1]
            if -self.n <= k < self.n:
                return k % self.n
            return ('oob', k)
        if first == ('fullslice',) and self.n == 1:
            return 0
        return None

    def ev_Subscript(self, node, st):
        base = self.ev(node.value, st)
        idx = self._index(node.slice, st)
        if base == TEMPS:
            if isinstance(idx, tuple) and idx[0] == 'c' and \
                    idx[1] in WALL_TEMPS:
                return ('walltemp', idx[1])
            return UNK()
        if base[0] == 'walltemp':
            w = self._wall(idx)
            if isinstance(w, int):
                return ('wallrow', base[1], w)
            if isinstance(idx, tuple) and idx[0] == 'cslice' and idx[3] != 0:
                return LIST(self.concretize(base)[slice(*idx[1:])])
            return UNK()
        if base[0] == 'wallrow':
            return base if isinstance(idx, tuple) and idx[0] in (
                'fullslice', 'slice', 'cslice') else UNK()
        it = idx if isinstance(idx, list) else [idx]
        if len(it) == 1 and it[0][0] == 'cslice' and it[0][3] != 0:
            seq = self.concretize(base)
            if seq is not None:
                return LIST(seq[slice(*it[0][1:])])
        if base == AVG:
            if len(it) == 1 and it[0][0] == 'c' and isinstance(
                    it[0][1], int) and not isinstance(it[0][1], bool) \
                    and -self.n <= it[0][1] < self.n:
                return ('avgelem', it[0][1] % self.n)
            if it == [('fullslice',)]:
                return AVG
            return UNK()
        if base[0] == 'list':
            if len(it) == 1 and it[0][0] == 'c' and isinstance(
                    it[0][1], int) and not isinstance(it[0][1], bool) \
                    and -len(base[1]) <= it[0][1] < len(base[1]):
                return base[1][it[0][1]]
            if it == [('fullslice',)]:
                return base
        tv = [x for x in it if isinstance(x, tuple) and x and
              x[0] in ('unk', 'list')]
        return UNK(taint(base) | union_taint(tv))

    def ev_BinOp(self, node, st):
        l, r = self.ev(node.left, st), self.ev(node.right, st)
        return self.binop(node.op, l, r)

    def binop(self, op, l, r):
        if l[0] == 'c' and r[0] == 'c' and all(
                isinstance(x[1], (int, float)) and not isinstance(x[1], bool)
                for x in (l, r)):
            a, b = l[1], r[1]
            try:
                if isinstance(op, ast.Add):
                    return C(a + b)
                if isinstance(op, ast.Sub):
                    return C(a - b)
                if isinstance(op, ast.Mult):
                    return C(a * b)
                if isinstance(op, ast.FloorDiv):
                    return C(a // b)
                if isinstance(op, ast.Mod):
                    return C(a % b)
                if isinstance(op, ast.Div):
                    return C(a / b)
                if isinstance(op, ast.Pow) and abs(b) < 16:
                    return C(a ** b)
            except (ZeroDivisionError, OverflowError):
                return UNK()
            return UNK()
        if isinstance(op, ast.Add) and l[0] == 'list' and r[0] == 'list':
            return LIST(l[1] + r[1])
        if isinstance(op, ast.Mult):
            for a, b in ((l, r), (r, l)):
                if a[0] == 'list' and b[0] == 'c' and isinstance(b[1], int) \
                        and not isinstance(b[1], bool) and \
                        0 <= b[1] * len(a[1]) <= MAX_UNROLL:
                    return LIST(a[1] * b[1])
        return UNK(taint(l) | taint(r))

    def ev_UnaryOp(self, node, st):
        if isinstance(node.op, ast.Not):
            t = self.truth(node.operand, st)
            return UNK() if t is None else C(not t)
        v = self.ev(node.operand, st)
        if v[0] == 'c' and isinstance(v[1], (int, float)) and \
                not isinstance(v[1], bool):
            if isinstance(node.op, ast.USub):
                return C(-v[1])
            if isinstance(node.op, ast.UAdd):
                return v
        return UNK(taint(v))

    def ev_BoolOp(self, node, st):
        t = self.truth(node, st)
        if t is None:
            return UNK(self._last_taint)
        return C(t)

    def ev_Compare(self, node, st):
        t = self.truth(node, st)
        if t is None:
            return UNK(self._last_taint)
        return C(t)

    _last_taint = NOTAINT

    def ev_IfExp(self, node, st):
        t = self.truth(node.test, st)
        if t is True:
            return self.ev(node.body, st)
        if t is False:
            return self.ev(node.orelse, st)
        a, b = st.copy(), st.copy()
        va, vb = self.ev(node.body, a), self.ev(node.orelse, b)
        self._join_into(st, [a, b])
        return va if va == vb else UNK(taint(va) | taint(vb))

    def _join_into(self, st, outs):
        st.mat = frozenset().union(*[o.mat for o in outs])
        keys = set()
        for o in outs:
            keys |= set(o.env)
        for k in keys:
            vs = [o.env.get(k) for o in outs]
            if all(v == vs[0] for v in vs):
                if vs[0] is not None:
                    st.env[k] = vs[0]
            else:
                st.env[k] = UNK(union_taint([v for v in vs if v is not None]))

    def ev_List(self, node, st):
        if any(isinstance(e, ast.Starred) for e in node.elts):
            return self.generic(node, st)
        return LIST([self.ev(e, st) for e in node.elts])

    ev_Tuple = ev_List

    def ev_Lambda(self, node, st):
        for n in ast.walk(node.body):
            if isinstance(n, ast.Attribute) and n.attr == 'duct':
                raise AnalysisError('C11.R10: lambda touching the duct '
                                    'material is not modelled: %s' % _s(node))
        return UNK()

    def _comp(self, node, st, elts):
        gens = node.generators
        saved = dict(st.env)
        touched = any(isinstance(n, ast.Attribute) and n.attr == 'duct'
                      or (isinstance(n, ast.Call) and isinstance(
                          n.func, ast.Attribute) and isinstance(
                              n.func.value, ast.Name) and
                          n.func.value.id == 'self' and self._callee_touches(
                              n.func.attr))
                      for n in ast.walk(node))
        out = None
        if len(gens) == 1 and not gens[0].is_async:
            seq = self.concretize(self.ev(gens[0].iter, st))
            if seq is not None:
                out = []
                for x in seq:
                    self.assign(gens[0].target, x, st)
                    keep = True
                    for c in gens[0].ifs:
                        t = self.truth(c, st)
                        if t is None:
                            out = None
                            break
                        keep = keep and t
                    if out is None:
                        break
                    if keep:
                        out.append(LIST([self.ev(e, st) for e in elts])
                                   if len(elts) > 1 else self.ev(elts[0], st))
        if out is None:
            if touched:
                raise AnalysisError(
                    'C11.R10: comprehension touching the duct material '
                    'over an iterable the rule cannot unroll: %s' % _s(node))
            vals = []
            for g in gens:
                vals.append(self.ev(g.iter, st))
                self.assign(g.target, UNK(taint(vals[-1])), st)
                for c in g.ifs:
                    self.truth(c, st)
            vals += [self.ev(e, st) for e in elts]
            res = UNK(union_taint(vals))
        else:
            res = LIST(out)
        # comprehension targets do not leak
        for g in gens:
            for t in ast.walk(g.target):
                if isinstance(t, ast.Name):
                    if t.id in saved:
                        st.env[t.id] = saved[t.id]
                    else:
                        st.env.pop(t.id, None)
        return res

    def _callee_touches(self, name):
        m = self.ix.lookup(self.cls, name)
        return m is not None and self.touches(m, self.cls)

    def ev_ListComp(self, node, st):
        return self._comp(node, st, [node.elt])

    ev_GeneratorExp = ev_ListComp
    ev_SetComp = ev_ListComp

    def ev_DictComp(self, node, st):
        v = self._comp(node, st, [node.key, node.value])
        return UNK(taint(v))

    def concretize(self, v):
        """Python list of abstract elements, or None."""
        if v[0] == 'list':
            return list(v[1]) if len(v[1]) <= MAX_UNROLL else None
        if v == AVG:
            return [('avgelem', w) for w in range(self.n)]
        if v[0] == 'walltemp':
            return [('wallrow', v[1], w) for w in range(self.n)]
        return None

    # -- truth values -----------------------------------------------------
    def truth(self, node, st):
        self._last_taint = NOTAINT
        if isinstance(node, ast.BoolOp):
            unknown = False
            tt = set()
            is_and = isinstance(node.op, ast.And)
            for x in node.values:
                t = self.truth(x, st)
                tt |= self._last_taint
                if t is None:
                    unknown = True
                elif t is (not is_and):
                    self._last_taint = frozenset(tt)
                    return (not is_and) if not unknown else None
            self._last_taint = frozenset(tt)
            return None if unknown else is_and
        if isinstance(node, ast.UnaryOp) and isinstance(node.op, ast.Not):
            t = self.truth(node.operand, st)
            return None if t is None else (not t)
        if isinstance(node, ast.Compare):
            vals = [self.ev(node.left, st)] + [self.ev(c, st)
                                               for c in node.comparators]
            self._last_taint = union_taint(vals)
            res = True
            for op, a, b in zip(node.ops, vals, vals[1:]):
                if isinstance(op, (ast.Is, ast.IsNot)):
                    if a[0] == 'c' and b[0] == 'c':
                        ok = (a[1] is b[1]) if isinstance(op, ast.Is) \
                            else (a[1] is not b[1])
                    else:
                        return None
                elif a[0] == 'c' and b[0] == 'c':
                    try:
                        if isinstance(op, ast.Eq):
                            ok = a[1] == b[1]
                        elif isinstance(op, ast.NotEq):
                            ok = a[1] != b[1]
                        elif isinstance(op, ast.Lt):
                            ok = a[1] < b[1]
                        elif isinstance(op, ast.LtE):
                            ok = a[1] <= b[1]
                        elif isinstance(op, ast.Gt):
                            ok = a[1] > b[1]
                        elif isinstance(op, ast.GtE):
                            ok = a[1] >= b[1]
                        else:
                            return None
                    except TypeError:
                        return None
                else:
                    return None
                if not ok:
                    res = False
            return res
        v = self.ev(node, st)
        self._last_taint = taint(v)
        if v[0] == 'c':
            return bool(v[1])
        if v[0] == 'list':
            return bool(v[1])
        return None

    # -- calls ------------------------------------------------------------
    def ev_Call(self, node, st):
        f = node.func
        # the duct material: update / clone
        if isinstance(f, ast.Attribute):
            recv = self.ev(f.value, st)
            if recv == DUCT:
                args = [self.ev(a, st) for a in node.args] + \
                    [self.ev(k.value, st) for k in node.keywords]
                if f.attr == 'update':
                    if len(args) != 1:
                        raise AnalysisError('C11.R10: duct material update '
                                            'with %d arguments' % len(args))
                    self.update(st, args[0], node)
                    return C(None)
                # any other method of the material (clone ...): a value
                # that depends on the present state
                self.reads += 1
                return UNK(st.mat)
            if recv == SELF:
                m = self.ix.lookup(self.cls, f.attr)
                if m is not None and not m.is_property:
                    args = [self.ev(a, st) for a in node.args]
                    kw = {k.arg: self.ev(k.value, st) for k in node.keywords}
                    if any(isinstance(a, ast.Starred) for a in node.args) \
                            or None in kw:
                        if self.touches(m, self.cls):
                            raise AnalysisError(
                                'C11.R10: star-arguments in a call that '
                                'touches the duct material: %s' % _s(node))
                        return UNK(union_taint(args + list(kw.values())))
                    if self.touches(m, self.cls):
                        return self.call_function(m, [SELF] + args, kw, st,
                                                  node)
                    return UNK(union_taint(args + list(kw.values())))
            # list mutators on a local
            if isinstance(f.value, ast.Name) and recv[0] == 'list':
                args = [self.ev(a, st) for a in node.args]
                if f.attr == 'append' and len(args) == 1:
                    st.env[f.value.id] = LIST(recv[1] + (args[0],))
                    return C(None)
                if f.attr == 'extend' and len(args) == 1 and \
                        args[0][0] == 'list':
                    st.env[f.value.id] = LIST(recv[1] + args[0][1])
                    return C(None)
                if f.attr == 'copy' and not args:
                    return recv
                st.env[f.value.id] = UNK(taint(recv) | union_taint(args))
                return UNK(taint(recv) | union_taint(args))
            args = [self.ev(a.value if isinstance(a, ast.Starred) else a, st)
                    for a in node.args] + \
                [self.ev(k.value, st) for k in node.keywords]
            self._no_escape(args, node)
            name = dotted(f) or ''
            if name in ('np.zeros', 'np.ones', 'np.empty', 'numpy.zeros',
                        'numpy.ones', 'numpy.empty') and args and \
                    args[0][0] == 'c' and isinstance(args[0][1], int) and \
                    0 <= args[0][1] <= MAX_UNROLL:
                return LIST([UNK()] * args[0][1])
            if name in ('np.array', 'np.asarray', 'numpy.array',
                        'numpy.asarray') and args and args[0][0] == 'list':
                return args[0]
            if name in ('np.arange', 'numpy.arange'):
                r = self._range(args)
                if r is not None:
                    return r
            return UNK(taint(recv) | union_taint(args))
        if isinstance(f, ast.Name):
            fv = st.env.get(f.id)
            args = [self.ev(a.value if isinstance(a, ast.Starred) else a, st)
                    for a in node.args]
            kw = {k.arg: self.ev(k.value, st) for k in node.keywords}
            if fv is not None and fv[0] == 'closure':
                fn, fi = self.closures[fv[1]]
                return self.call_function(fi, args, kw, st, node,
                                          fnode=fn, closure=True)
            if fv is None:
                b = self._builtin(f.id, args, kw)
                if b is not None:
                    return b
                # module-level function of the package
                mf = self.ix.funcs.get(self.frames[-1].fi.mod.name, {}).get(f.id)
                if mf is not None and mf.cls is None and mf.outer is None \
                        and any(isinstance(n, ast.Attribute) and
                                n.attr == 'duct' for n in ast.walk(mf.node)) \
                        and any(a in (SELF, DUCT) for a in
                                args + list(kw.values())):
                    raise AnalysisError(
                        'C11.R10: %s hands the region / its duct material '
                        'to a module function that touches a duct material; '
                        'not modelled' % _s(node))
            self._no_escape([a for a in args + list(kw.values())
                             if a == DUCT], node)
            return UNK(union_taint(args + list(kw.values())))
        vals = [self.ev(f, st)] + [self.ev(a.value if isinstance(
            a, ast.Starred) else a, st) for a in node.args] + \
            [self.ev(k.value, st) for k in node.keywords]
        return UNK(union_taint(vals))

    def _no_escape(self, args, node):
        if any(a == DUCT for a in args):
            raise AnalysisError('C11.R10: the duct material object is handed '
                                'to a call the rule does not follow: %s'
                                % _s(node))

    def _range(self, args):
        if args and all(a[0] == 'c' and isinstance(a[1], int) and
                        not isinstance(a[1], bool) for a in args) and \
                len(args) <= 3:
            try:
                r = range(*[a[1] for a in args])
            except ValueError:
                return None
            if len(r) <= MAX_UNROLL:
                return LIST([C(i) for i in r])
        return None

    def _builtin(self, name, args, kw):
        if name == 'range' and not kw:
            return self._range(args) or UNK()
        if name == 'len' and len(args) == 1:
            seq = self.concretize(args[0])
            return C(len(seq)) if seq is not None else UNK()
        if name == 'enumerate' and args:
            seq = self.concretize(args[0])
            start = kw.get('start', args[1] if len(args) > 1 else C(0))
            if seq is not None and start[0] == 'c' and isinstance(
                    start[1], int):
                return LIST([LIST([C(start[1] + i), x])
                             for i, x in enumerate(seq)])
            return UNK(union_taint(args))
        if name == 'zip' and args:
            seqs = [self.concretize(a) for a in args]
            known = [s for s in seqs if s is not None]
            if known:
                ln = min(len(s) for s in known)
                cols = [s[:ln] if s is not None else [UNK(taint(a))] * ln
                        for s, a in zip(seqs, args)]
                return LIST([LIST(list(row)) for row in zip(*cols)])
            return UNK(union_taint(args))
        if name == 'reversed' and len(args) == 1:
            seq = self.concretize(args[0])
            if seq is not None:
                return LIST(seq[::-1])
            return UNK(taint(args[0]))
        if name in ('list', 'tuple') and len(args) == 1:
            seq = self.concretize(args[0])
            if seq is not None:
                return LIST(seq)
            return UNK(taint(args[0]))
        if name in ('list', 'tuple') and not args:
            return LIST([])
        if name in ('max', 'min') and len(args) >= 2 and not kw:
            if all(a[0] == 'c' and isinstance(a[1], (int, float)) and
                   not isinstance(a[1], bool) for a in args):
                return C((max if name == 'max' else min)(a[1] for a in args))
            return UNK(union_taint(args))
        if name == 'abs' and len(args) == 1:
            if args[0][0] == 'c' and isinstance(args[0][1], (int, float)):
                return C(abs(args[0][1]))
            return UNK(taint(args[0]))
        if name in ('int', 'float') and len(args) == 1:
            if args[0][0] == 'c' and isinstance(args[0][1], (int, float)):
                return C(int(args[0][1]) if name == 'int' else args[0][1])
            return UNK(taint(args[0]))
        return None

    def call_function(self, fi, args, kw, st, node, fnode=None,
                      closure=False):
        """Abstract execution of a callee; the caller's state is updated
        with the join of the callee's exits."""
        fnode = fnode or fi.node
        if len(self.stack) >= MAX_DEPTH or any(
                n is node for _, n in self.stack):
            raise AnalysisError('C11.R10: call depth / recursion at %s'
                                % _s(node))
        a = fnode.args
        if a.vararg or a.kwarg or a.kwonlyargs:
            raise AnalysisError('C11.R10: signature of %s not modelled'
                                % fi.qual)
        params = [x.arg for x in a.posonlyargs + a.args]
        if closure:
            env = dict(st.env)
        else:
            env = {k: v for k, v in st.env.items() if '.' in k}
        if len(args) > len(params):
            raise AnalysisError('C11.R10: too many arguments in %s'
                                % _s(node))
        bound = dict(zip(params, args))
        for k, v in kw.items():
            if k not in params or k in bound:
                raise AnalysisError('C11.R10: keyword %s in %s' % (k,
                                                                    _s(node)))
            bound[k] = v
        inner = State(st.mat, env)
        ndef = len(a.defaults)
        for p, dflt in zip(params[len(params) - ndef:], a.defaults):
            if p not in bound:
                bound[p] = self.ev(dflt, inner) if isinstance(
                    dflt, ast.Constant) else UNK()
        for p in params:
            if p not in bound:
                raise AnalysisError('C11.R10: missing argument %s in %s'
                                    % (p, _s(node)))
        env.update(bound)
        self.stack.append((self.frames[-1].fi, node))
        fr = Frame(fi, self.cls)
        self.frames.append(fr)
        try:
            ends = self.block(fnode.body, [inner])
        finally:
            self.frames.pop()
            self.stack.pop()
        outs = [(s, C(None)) for s in ends] + fr.ret
        if not outs:
            raise _Abort()
        states = [s for s, _ in outs]
        # heap (self.x) entries flow back to the caller
        for s in states:
            s.env = {k: v for k, v in s.env.items() if '.' in k}
        self._join_into(st, states)
        vals = [v for _, v in outs]
        if all(v == vals[0] for v in vals):
            return vals[0]
        return UNK(union_taint(vals))

    # -- assignment -------------------------------------------------------
    def assign(self, target, val, st, stmt=None, aug=False):
        if isinstance(target, ast.Name):
            st.env[target.id] = val
            return
        if isinstance(target, (ast.Tuple, ast.List)):
            seq = self.concretize(val)
            if seq is not None and len(seq) == len(target.elts) and not any(
                    isinstance(e, ast.Starred) for e in target.elts):
                for e, v in zip(target.elts, seq):
                    self.assign(e, v, st, stmt)
            else:
                for e in target.elts:
                    self.assign(e.value if isinstance(e, ast.Starred) else e,
                                UNK(taint(val)), st, stmt)
            return
        if isinstance(target, ast.Starred):
            self.assign(target.value, UNK(taint(val)), st, stmt)
            return
        if isinstance(target, ast.Attribute):
            base = self.ev(target.value, st)
            if base == DUCT or (base == SELF and target.attr == 'duct'):
                raise AnalysisError('C11.R10: the duct material is re-bound '
                                    'or written directly: %s' % _s(target))
            d = dotted(target)
            if d is not None:
                st.env[d] = val
            return
        if isinstance(target, ast.Subscript):
            base = self.ev(target.value, st)
            idx = self._index(target.slice, st)
            if base == TEMPS:
                if isinstance(idx, tuple) and idx[0] == 'c' and \
                        idx[1] in WALL_TEMPS:
                    raise AnalysisError('C11.R10: a whole wall-temperature '
                                        'array is re-bound: %s' % _s(target))
                return
            if base[0] == 'walltemp':
                w = self._wall(idx)
                if not isinstance(w, int):
                    raise AnalysisError(
                        'C11.R10: store into %s with a wall index the rule '
                        'cannot evaluate for %d wall(s): %s'
                        % (base[1], self.n, _s(target)))
                self.sink(base[1], w, val, target, stmt, st)
                return
            if base[0] == 'wallrow':
                self.sink(base[1], base[2], val, target, stmt, st)
                return
            if base == AVG or base == DUCT:
                raise AnalysisError('C11.R10: store into %s' % _s(target))
            it = idx if isinstance(idx, list) else [idx]
            if isinstance(target.value, ast.Name):
                nm = target.value.id
                if base[0] == 'list' and len(it) == 1 and it[0][0] == 'c' \
                        and isinstance(it[0][1], int) and \
                        -len(base[1]) <= it[0][1] < len(base[1]) and not aug:
                    items = list(base[1])
                    items[it[0][1]] = val
                    st.env[nm] = LIST(items)
                else:
                    st.env[nm] = UNK(taint(base) | taint(val))
                return
            d = dotted(target.value)
            if d is not None:
                st.env[d] = UNK(taint(base) | taint(val))
            return
        raise AnalysisError('C11.R10: assignment target %s' % _s(target))

    def sink(self, kind, w, val, target, stmt, st):
        fr = self.frames[-1]
        self.sinks.append((fr.fi, stmt if stmt is not None else target,
                           kind, w, taint(val),
                           self.stack[0] if self.stack else None))

    # -- statements -------------------------------------------------------
    def block(self, stmts, states):
        cur = states
        for s in stmts:
            if not cur:
                break
            nxt = []
            for st in cur:
                try:
                    nxt += self.stmt(s, st)
                except _Abort:
                    pass
            cur = _dedup(nxt)
        return cur

    def stmt(self, s, st):
        fr = self.frames[-1]
        if isinstance(s, ast.Expr):
            if default_terminator(s):
                raise _Abort()
            self.ev(s.value, st)
            return [st]
        if isinstance(s, ast.Assign):
            v = self.ev(s.value, st)
            for t in s.targets:
                self.assign(t, v, st, s)
            return [st]
        if isinstance(s, ast.AnnAssign):
            if s.value is not None:
                self.assign(s.target, self.ev(s.value, st), st, s)
            return [st]
        if isinstance(s, ast.AugAssign):
            load = ast.parse(_s(s.target), mode='eval').body
            old = self.ev(load, st)
            v = self.binop(s.op, old, self.ev(s.value, st))
            if old[0] in ('walltemp', 'wallrow'):
                v = UNK(taint(v))
            self.assign(s.target, v, st, s, aug=True)
            return [st]
        if isinstance(s, ast.If):
            t = self.truth(s.test, st)
            if t is True:
                return self.block(s.body, [st])
            if t is False:
                return self.block(s.orelse, [st])
            other = st.copy()
            return self.block(s.body, [st]) + self.block(s.orelse, [other])
        if isinstance(s, (ast.For, ast.AsyncFor)):
            return self.loop_for(s, st)
        if isinstance(s, ast.While):
            return self.loop_while(s, st)
        if isinstance(s, ast.Return):
            v = self.ev(s.value, st) if s.value is not None else C(None)
            fr.ret.append((st, v))
            return []
        if isinstance(s, ast.Break):
            fr.loops[-1]['brk'].append(st)
            return []
        if isinstance(s, ast.Continue):
            fr.loops[-1]['cont'].append(st)
            return []
        if isinstance(s, ast.Raise) or default_terminator(s):
            raise _Abort()
        if isinstance(s, (ast.Pass, ast.Import, ast.ImportFrom, ast.Global,
                          ast.Nonlocal)):
            return [st]
        if isinstance(s, ast.Assert):
            self.truth(s.test, st)
            return [st]
        if isinstance(s, ast.Delete):
            for t in s.targets:
                if isinstance(t, ast.Name):
                    st.env.pop(t.id, None)
            return [st]
        if isinstance(s, (ast.With, ast.AsyncWith)):
            for it in s.items:
                v = self.ev(it.context_expr, st)
                if it.optional_vars is not None:
                    self.assign(it.optional_vars, UNK(taint(v)), st, s)
            return self.block(s.body, [st])
        if isinstance(s, ast.Try):
            before = st.copy()
            ends = self.block(s.body, [st])
            if s.handlers:
                # an exception may leave the body anywhere: the handler
                # sees the join of the states before and after it
                h0 = before.copy()
                self._join_into(h0, [before] + ends)
                outs = []
                for h in s.handlers:
                    hs = h0.copy()
                    if h.name:
                        hs.env[h.name] = UNK()
                    outs += self.block(h.body, [hs])
            else:
                outs = []
            if s.orelse:
                ends = self.block(s.orelse, ends)
            res = ends + outs
            if s.finalbody:
                res = self.block(s.finalbody, res)
            return res
        if isinstance(s, (ast.FunctionDef, ast.AsyncFunctionDef)):
            self.closures.append((s, fr.fi))
            st.env[s.name] = ('closure', len(self.closures) - 1)
            return [st]
        if isinstance(s, ast.ClassDef):
            return [st]
        raise AnalysisError('C11.R10: statement kind %s not modelled'
                            % type(s).__name__)

    def loop_for(self, s, st):
        fr = self.frames[-1]
        seq = self.concretize(self.ev(s.iter, st))
        done = []
        if seq is not None:
            cur = [st]
            for x in seq:
                ctx = {'brk': [], 'cont': []}
                fr.loops.append(ctx)
                try:
                    for c in cur:
                        self.assign(s.target, x, c, s)
                    cur = self.block(s.body, cur)
                finally:
                    fr.loops.pop()
                cur = _dedup(cur + ctx['cont'])
                done += ctx['brk']
                if not cur:
                    break
            out = cur
            if s.orelse:
                out = self.block(s.orelse, out)
            return _dedup(out + done)
        # iterable of unknown length: zero or more passes, to a fixpoint
        seen, frontier, exits = set(), [st], [st.copy()]
        for rnd in range(40):
            new = []
            if rnd >= 3:
                for c in frontier:
                    self._widen(c)
            ctx = {'brk': [], 'cont': []}
            fr.loops.append(ctx)
            try:
                for c in frontier:
                    self.assign(s.target, UNK(), c, s)
                ends = self.block(s.body, frontier)
            finally:
                fr.loops.pop()
            for e in ends + ctx['cont']:
                k = e.key()
                if k not in seen:
                    seen.add(k)
                    new.append(e)
            done += ctx['brk']
            exits += [e.copy() for e in new]
            if not new:
                break
            frontier = new
        else:
            raise AnalysisError('C11.R10: loop without a fixpoint: %s'
                                % _s(s.iter))
        if s.orelse:
            exits = self.block(s.orelse, exits)
        return _dedup(exits + done)

    @staticmethod
    def _widen(st):
        """Containers and counters that keep growing in a loop of unknown
        length lose their structure, not their taint."""
        for k, v in list(st.env.items()):
            if v[0] == 'list':
                st.env[k] = UNK(taint(v))
            elif v[0] == 'c' and isinstance(v[1], (int, float)) and \
                    not isinstance(v[1], bool):
                st.env[k] = UNK()

    def loop_while(self, s, st):
        fr = self.frames[-1]
        seen, frontier, exits, done = set(), [st], [], []
        for rnd in range(200):
            enter = []
            if rnd >= 8:
                for c in frontier:
                    self._widen(c)
            for c in frontier:
                t = self.truth(s.test, c)
                if t is not True:
                    exits.append(c.copy() if t is None else c)
                if t is not False:
                    enter.append(c if t is True else c.copy())
            if not enter:
                break
            ctx = {'brk': [], 'cont': []}
            fr.loops.append(ctx)
            try:
                ends = self.block(s.body, enter)
            finally:
                fr.loops.pop()
            done += ctx['brk']
            frontier = []
            for e in ends + ctx['cont']:
                k = e.key()
                if k not in seen:
                    seen.add(k)
                    frontier.append(e)
            if not frontier:
                break
        else:
            raise AnalysisError('C11.R10: while loop without a fixpoint')
        return _dedup(exits + done)

    # -- entry ------------------------------------------------------------
    def run(self, fi):
        env = {}
        for p in fi.params:
            env[p] = SELF if p == 'self' else UNK()
        st = State(frozenset([('entry',)]), env)
        fr = Frame(fi, self.cls)
        self.frames.append(fr)
        try:
            ends = self.block(fi.node.body, [st])
        finally:
            self.frames.pop()
        return len(ends) + len(fr.ret)


# ---------------------------------------------------------------------------
# the finite domain: how many walls can a region of this class have

def walls_domain(repo, cls):
    base = repo.cls('region', 'DASSH_Region')
    binit = base.methods.get('__init__')
    if binit is None or 'n_bypass' not in binit.params:
        raise AnalysisError('DASSH_Region.__init__: the n_bypass parameter '
                            '(number of walls - 1) vanished')
    pos = binit.params.index('n_bypass')
    for c in repo.mro(cls):
        if c is base:
            break
        # (the constructor may delegate to a set-up method of the class)
        found = []
        for m in c.methods.values():
            for call in ast.walk(m.node):
                if isinstance(call, ast.Call) and dotted(call.func) == \
                        'DASSH_Region.__init__':
                    found.append(call)
        if not found:
            continue
        doms = set()
        for call in found:
            arg = None
            if len(call.args) > pos:
                arg = call.args[pos]
            for k in call.keywords:
                if k.arg == 'n_bypass':
                    arg = k.value
            if arg is None:
                doms.add((1,))
            elif isinstance(arg, ast.Constant) and isinstance(
                    arg.value, int):
                doms.add((arg.value + 1,))
            else:
                doms.add(N_WALLS)
        return tuple(sorted(set().union(*doms)))
    raise AnalysisError('%s: no DASSH_Region.__init__(...) call found; the '
                        'number of walls of the region is unknown' % cls.full)


def _solvers(ix):
    """Functions that store wall temperatures and touch the duct material:
    the named anchors plus anything of that shape in the region modules
    (as written)."""
    repo = ix.repo
    out = []
    for mn, q in SOLVERS:
        out.append(ix.raw(repo.func(mn, q)))
    probe = None
    for (mname, cname), tab in sorted(ix.methods.items()):
        if not mname.startswith('dassh.region'):
            continue
        for f in tab.values():
            if f.cls is None or any(f.node is o.node for o in out):
                continue
            stores = False
            for st in ast.walk(f.node):
                if isinstance(st, (ast.Assign, ast.AugAssign)):
                    ts = st.targets if isinstance(st, ast.Assign) \
                        else [st.target]
                    for t in ts:
                        tx = _s(t)
                        if isinstance(t, ast.Subscript) and any(
                                "temp['%s']" % k in tx for k in WALL_TEMPS):
                            stores = True
            if not stores:
                continue
            probe = probe or Interp(ix, f.cls, 1)
            probe.cls = f.cls
            if probe.touches(f, f.cls):
                out.append(f)
    return out


def _describe(ip, m, n):
    if m[0] == 'entry':
        return ('in the state a caller left it in (no material update '
                'precedes the read inside the solver on this path)', None)
    fi, node = ip.sites[m[-1]]
    if m[0] == 'avg':
        return ('at avg_duct_mw_temp[%d], the mean temperature of wall %d '
                '(set by `%s`)' % (m[1], m[1], _s(node)[:90]), (fi, node))
    return ('at a temperature that is not an element of avg_duct_mw_temp '
            '(set by `%s`)' % _s(node)[:90], (fi, node))


def run(ctx):
    ctx.decided.append(
        'R10 (finite index domain n walls = 1..4 from the class\'s '
        'DASSH_Region.__init__ call x abstract execution with material-state '
        'taints) every duct-material property that flows into the stored '
        'mid-wall / surface temperatures of wall w was read while the shared '
        'duct Material was updated, inside the solver and on every path, to '
        'that wall\'s own mean temperature avg_duct_mw_temp[w] (callees that '
        'touch self.duct, e.g. the _update_duct wrapper, are executed too)')
    ctx.trusted.append('C11.R10: Material.update(T) evaluates the property '
                       'correlations at T; self.avg_duct_mw_temp[w] is the '
                       'mean mid-wall temperature of wall w; self.n_duct = '
                       'n_bypass + 1 = number of walls')
    repo = ctx.repo
    ix = RawIndex(repo)
    n_ok = 0
    reported = set()
    for fi in _solvers(ix):
        if fi.cls is None:
            raise AnalysisError('%s: class of the solver unknown' % fi.full)
        classes = [fi.cls] + [c for c in repo.subclasses(fi.cls)
                              if ix.lookup(c, fi.name) is fi]
        for cls in classes:
            dom = walls_domain(repo, cls)
            bad = {}        # category -> (text, node-fi, node, cases)
            good = {}
            reads = 0
            for n in dom:
                ip = Interp(ix, cls, n)
                exits = ip.run(fi)
                if exits == 0:
                    raise AnalysisError('%s: no path reaches the end of the '
                                        'solver for %d wall(s)' % (fi.qual, n))
                reads += ip.reads
                for sfi, stmt, kind, w, tn, via in ip.sinks:
                    for m in sorted(tn, key=repr):
                        if m[0] == 'avg' and m[1] == w:
                            good.setdefault((n, w), set()).add(kind)
                            continue
                        cat = m[0] if m[0] != 'avg' else 'wall'
                        desc, site = _describe(ip, m, n)
                        rec = bad.setdefault(cat, {
                            'first': (n, w, kind, stmt, sfi, desc, site),
                            'cases': set()})
                        rec['cases'].add((n, w))
            if reads == 0:
                raise AnalysisError(
                    '%s (%s): the solver reads no property of the duct '
                    'material any more; C11.R10 has nothing to decide and '
                    'C11.R4 has lost its conductivity' % (fi.qual, cls.name))
            for cat, rec in sorted(bad.items()):
                if (fi.full, cat) in reported:
                    continue        # same finding through a subclass
                reported.add((fi.full, cat))
                n, w, kind, stmt, sfi, desc, site = rec['first']
                where_fi, where_node = (site if site is not None
                                        else (sfi, stmt))
                ctx.violation(
                    RULE, where_fi, where_node,
                    'wall w must be solved with the conductivity of the duct '
                    'material at its own mean temperature avg_duct_mw_temp[w]'
                    ': for %d wall(s) the value stored into temp[%r] of wall '
                    '%d (`%s`) depends on a duct-material property read while '
                    'the material was %s; failing (walls, wall): %s%s'
                    % (n, kind, w, _s(stmt)[:70], desc,
                       sorted(rec['cases'])[:8],
                       '' if cls is fi.cls else ' [as inherited by %s]'
                       % cls.name),
                    key='%s | wall conductivity at the own mean wall '
                        'temperature | %s' % (fi.full, {
                            'entry': 'stale state', 'wall': 'another wall',
                            'other': 'another temperature'}[cat]))
            if bad:
                continue
            for (n, w), kinds in sorted(good.items()):
                n_ok += 1
                ctx.ok(RULE, fi, None,
                       '%s: wall %d of %d: k read at avg_duct_mw_temp[%d] '
                       'flows into %s' % (cls.name, w, n, w,
                                          '/'.join(sorted(kinds))))
            missing = [(n, w) for n in dom for w in range(n)
                       if (n, w) not in good]
            if missing:
                raise AnalysisError(
                    '%s (%s): no conductivity-dependent wall temperature is '
                    'stored for (walls, wall) = %s; the rule cannot see the '
                    'solution of these walls' % (fi.qual, cls.name,
                                                 missing[:6]))
    ctx.min_instances(RULE, 20)
