"""C19 -- hot-spot temperatures reduce to nominal and grow with uncertainty."""
import ast

from ..core import (AnalysisError, access_path, const, find_all, match, short,
                    src, walk_no_nested, parent, call_name)
from .. import util as U
from .. import schema as S
from ..interval import Iv, Interp

PIN_COL = {'clad_od': 4, 'clad_mw': 5, 'clad_id': 6, 'fuel_od': 7,
           'fuel_cl': 8}


def run(ctx):
    ctx.decided += [
        'R1 region list, column-count table, schema options and the profile '
        'slice table agree; number of dT terms = subfactor columns (+1 for '
        'the split clad term)',
        'R2 interval abstract interpretation of calculate_temps: with direct '
        '>= 1, statistical >= 1, dT >= 0, IN_sigma > 0, OUT_sigma >= 0 the '
        'result is T_in + cumsum(dT * prod(direct)) plus a non-negative term '
        'that is linear in OUT_sigma / IN_sigma; with all subfactors 1 the '
        'added term is exactly 0 and the factor exactly 1; reductions run '
        'along the right axes',
        'R3 the dT vector is built from the profile stored with the peak of '
        'the same key, inlet temperature prepended; subfactor columns are '
        'cropped to the dT count',
        'R4 result rows stay attached to their assembly: the id list and the '
        'temperature rows are extended in the same block, and after '
        'order = argsort(ids) every returned container is reordered by a '
        'gather through that same permutation (x[order] / [x[i] for i in '
        'order]); a scatter (x[order] = ...) applies the inverse permutation']
    ctx.not_decided += ['numerical values', 'expression evaluation (eval) of '
                        'dT-dependent subfactors']
    r1(ctx)
    r2(ctx)
    r3(ctx)
    r4(ctx)
    ctx.min_instances('C19.R4', 3)
    r5(ctx)
    ctx.min_instances('C19.R5', 4)
    r6(ctx)
    ctx.min_instances('C19.R6', 3)
    from . import _rowtear
    _rowtear.check(ctx, 'C19.R4', ('hotspot',))
    ctx.min_instances('C19.R1', 8)
    ctx.min_instances('C19.R2', 9)
    ctx.min_instances('C19.R3', 4)
    ctx.assumptions += ['dT >= 0 (temperatures rise from coolant to fuel)',
                        'direct subfactors >= 1, statistical subfactors >= 1',
                        'IN_sigma > 0, OUT_sigma >= 0']


def r1(ctx):
    repo = ctx.repo
    hm = repo.mod('hotspot')
    regs = U.literal_list(hm.globals.get('_REGIONS'))
    cols = U.literal_list(hm.globals.get('_COLS_NEEDED'))
    if regs is None or cols is None:
        raise AnalysisError('hotspot._REGIONS / _COLS_NEEDED not literal')
    where = 'dassh/hotspot.py:%d' % hm.globals['_REGIONS'].lineno
    ctx.require(list(cols) == list(regs) and len(set(regs)) == 6, 'C19.R1',
                where, hm.globals['_COLS_NEEDED'],
                '_COLS_NEEDED keys must equal _REGIONS (6 locations)',
                key='dassh.hotspot | regions = cols keys')
    keys, sections = S.parse_template(repo.template_text)
    k = keys.get(('Assembly', '__many__', 'Hotspot', '__many__',
                  'temperature'))
    if k is None:
        raise AnalysisError('schema Hotspot/temperature vanished')
    ctx.require(sorted(k.options) == sorted(regs), 'C19.R1',
                'dassh/input_template.txt:%d' % k.lineno, None,
                'schema options %s must equal hotspot._REGIONS %s'
                % (k.options, regs), key='dassh.hotspot | schema options')
    gp = repo.func('hotspot', '_get_peak_dt')
    idx = U.literal_list(U.single_def(gp.node, 'idx'))
    if idx is None:
        raise AnalysisError('_get_peak_dt idx table')
    an = repo.func('hotspot', 'analyze')
    split = None
    for n in ast.walk(an.node):
        if isinstance(n, ast.If) and '_split_clad_subfactors' in src(n):
            cp = U.compare_parts(n.test)
            if cp and cp[1] is ast.In:
                split = U.literal_list(cp[2])
    if split is None:
        raise AnalysisError('analyze: clad split set not found')
    for r in regs:
        if r == 'coolant':
            n_dt = 1
        else:
            ctx.require(idx.get(r) == PIN_COL[r] + 1, 'C19.R1', gp,
                        U.single_def(gp.node, 'idx'),
                        'profile slice end for %r must be its pin_temps '
                        'column + 1 (%d), is %s' % (r, PIN_COL[r] + 1,
                                                    idx.get(r)),
                        key='%s | idx %s' % (gp.full, r))
            n_dt = idx.get(r, 0) - 3
        n_sf = cols[r] - 2 + (1 if r in split else 0)
        ctx.require(n_dt == n_sf, 'C19.R1', where, hm.globals['_COLS_NEEDED'],
                    'location %r: %d temperature rises but %d subfactor '
                    'columns (after the clad split)' % (r, n_dt, n_sf),
                    key='dassh.hotspot | term count %s' % r)
    # Assembly._peak pin columns are the same table (C15.R3 checks the rest)
    fi = repo.func('assembly', 'Assembly.__init__')
    hits = find_all("self._peak['pin'][keys[Q_i]] = [Q_v, Q_i + Q_off, Q_l]",
                    fi.node, 'stmt')
    kl = U.literal_list(U.single_def(fi.node, 'keys'))
    ok = bool(hits) and kl is not None and \
        {k_: i + const(hits[0][1]['Q_off']) for i, k_ in enumerate(kl)} \
        == PIN_COL
    ctx.require(ok, 'C19.R1', fi, hits[0][0] if hits else fi.node,
                'peak pin columns must match the hot-spot slice table',
                key=fi.full + ' | peak pin columns')


def _axis(call):
    ax = U.kwarg(call, 'axis')
    if ax is None and len(call.args) > 1:
        ax = call.args[1]
    return const(ax) if ax is not None else None


def _add_terms(e):
    if isinstance(e, ast.BinOp) and isinstance(e.op, ast.Add):
        return _add_terms(e.left) + _add_terms(e.right)
    return [e]


def _mul_factors(e):
    if isinstance(e, ast.BinOp) and isinstance(e.op, ast.Mult):
        return _mul_factors(e.left) + _mul_factors(e.right)
    return [e]


def r2(ctx):
    """Decided on the *value returned* (all locals expanded flow-sensitively),
    so that temporaries, re-bindings and operand order do not matter."""
    fi = ctx.repo.func('hotspot', 'calculate_temps')
    body = [s for s in fi.node.body if not (isinstance(s, ast.Expr) and
                                           isinstance(s.value, ast.Constant))]
    if not all(isinstance(s, (ast.Assign, ast.AugAssign, ast.Return))
               for s in body):
        raise AnalysisError('calculate_temps is no longer straight-line')
    params = fi.params
    T_in, dT, hcf, INs, OUTs = params[:5]
    scen = {
        'general': {dT: Iv.ge(0.0), "%s['direct']" % hcf: Iv.ge(1.0),
                    "%s['statistical']" % hcf: Iv.ge(1.0),
                    INs: Iv.gt(0.0), OUTs: Iv.ge(0.0), T_in: Iv.gt(0.0)},
        'unit': {dT: Iv.ge(0.0), "%s['direct']" % hcf: Iv.point(1.0),
                 "%s['statistical']" % hcf: Iv.point(1.0),
                 INs: Iv.gt(0.0), OUTs: Iv.ge(0.0), T_in: Iv.gt(0.0)},
    }
    res = {nm: Interp(env) for nm, env in scen.items()}
    ret = [s for s in body if isinstance(s, ast.Return)]
    if len(ret) != 1 or ret[0] is not body[-1]:
        raise AnalysisError('calculate_temps: return shape')
    R = U.value_at(fi.node, ret[0].value, ret[0].lineno)
    ctx.extra['returned_value'] = ' '.join(src(R).split())[:600]
    terms = _add_terms(R)
    t_in = [t for t in terms if src(t) == T_in]
    cums = [t for t in terms if isinstance(t, ast.Call)
            and call_name(t) == 'np.cumsum']
    incs = [t for t in terms if t not in t_in and t not in cums]
    ok = len(t_in) == 1 and len(cums) == 1 and _axis(cums[0]) in (1, -1)
    ctx.require(ok, 'C19.R2', fi, ret[0],
                'the nominal part must be T_in + cumsum(zero-sigma dT) along '
                'the term axis (cumulative coolant -> clad -> fuel)',
                key=fi.full + ' | cumulative base')
    cum = cums[0] if ok else None
    # zero-sigma dT = dT * prod(direct, axis=1)
    fac = None
    okz = False
    if cum is not None:
        fs = _mul_factors(cum.args[0])
        dts = [f for f in fs if src(f) == dT]
        others = [f for f in fs if src(f) != dT]
        okz = len(dts) == 1 and len(others) == 1
        if okz:
            fac = others[0]
            fv_g = res['general'].ev(fac)
            fv_u = res['unit'].ev(fac)
            okz = fv_g.at_least(1.0) and fv_u.is_point(1.0)
    ctx.require(okz, 'C19.R2', fi, ret[0],
                'zero-sigma rise must be dT times a factor proved >= 1 (== 1 '
                'when all direct subfactors are 1)',
                key=fi.full + ' | direct factor >= 1')
    ctx.require(fac is not None and isinstance(fac, ast.Call) and
                call_name(fac) == 'np.prod' and _axis(fac) == 1 and
                src(fac.args[0]) == "%s['direct']" % hcf, 'C19.R2', fi,
                ret[0],
                'direct factor = product over the subfactor axis (axis=1)',
                key=fi.full + ' | prod axis')
    # increments: each proved >= 0, == 0 in the unit scenario
    ctx.require(len(incs) == 1, 'C19.R2', fi, ret[0],
                'exactly one statistical increment is added to the result',
                key=fi.full + ' | one increment')
    n_out = sum(1 for n in ast.walk(R) if isinstance(n, ast.Name)
                and n.id == OUTs)
    n_in = sum(1 for n in ast.walk(R) if isinstance(n, ast.Name)
               and n.id == INs)
    for e in incs:
        g = res['general'].ev(e)
        u = res['unit'].ev(e)
        ctx.require(g.nonneg(), 'C19.R2', fi, ret[0],
                    'the statistical increment is not provably >= 0 (%r): '
                    'hot-spot temperatures could fall below nominal' % g,
                    key=fi.full + ' | increment >= 0')
        ctx.require(u.is_zero(), 'C19.R2', fi, ret[0],
                    'with all subfactors equal to one the increment must '
                    'vanish exactly (found %r)' % u,
                    key=fi.full + ' | increment 0 at unit subfactors')
        pf = _factors(e)
        okp = pf is not None and [src(x) for x in pf[0]].count(OUTs) == 1 \
            and [src(x) for x in pf[1]] == [INs] and n_out == 1 and n_in == 1
        ctx.require(okp, 'C19.R2', fi, ret[0],
                    'the increment must be OUT_sigma * (...) / IN_sigma with '
                    'each sigma occurring once', key=fi.full + ' | sigmas')
    # statistical part: (stat - 1), cumulated along terms, root-sum-square
    # over subfactors
    m1 = [n for n in ast.walk(R) if isinstance(n, ast.BinOp)
          and isinstance(n.op, ast.Sub)
          and src(n.left) == "%s['statistical']" % hcf
          and const(n.right) == 1]
    ctx.require(len(m1) >= 1, 'C19.R2', fi, ret[0],
                'uncertainty fractions are (statistical - 1)',
                key=fi.full + ' | stat - 1')
    cs = [c for c in ast.walk(R) if isinstance(c, ast.Call)
          and call_name(c) == 'np.cumsum' and c is not cum]
    ctx.require(len(cs) >= 1 and all(_axis(c) == 2 for c in cs), 'C19.R2',
                fi, ret[0], 'uncertainties accumulate along '
                'the term axis (axis=2)', key=fi.full + ' | unc cumsum axis')
    rs = [c for c in ast.walk(R) if isinstance(c, ast.Call)
          and call_name(c) == 'np.sqrt']
    ok = len(rs) >= 1 and all(
        isinstance(r_.args[0], ast.Call) and
        call_name(r_.args[0]) == 'np.sum' and _axis(r_.args[0]) == 1
        and isinstance(r_.args[0].args[0], ast.BinOp) and
        isinstance(r_.args[0].args[0].op, ast.Pow) and
        const(r_.args[0].args[0].right) == 2 for r_ in rs)
    ctx.require(ok, 'C19.R2', fi, ret[0],
                'root-sum-square over the subfactor axis (axis=1)',
                key=fi.full + ' | rss axis')
    ctx.extra['intervals_general'] = {
        'direct factor': repr(res['general'].ev(fac)) if fac is not None
        else None,
        'increment': [repr(res['general'].ev(e)) for e in incs]}


def _factors(e):
    num, den = [], []

    def rec(n, inv):
        if isinstance(n, ast.BinOp) and isinstance(n.op, ast.Mult):
            return rec(n.left, inv) and rec(n.right, inv)
        if isinstance(n, ast.BinOp) and isinstance(n.op, ast.Div):
            return rec(n.left, inv) and rec(n.right, not inv)
        (den if inv else num).append(n)
        return True
    return (num, den) if rec(e, False) else None


def r3(ctx):
    """Decided on values (rules/_c19_r3.py): `_get_peak_dt` is evaluated by
    the finite-domain evaluator on model reactors with symbolic temperatures;
    the arguments of `calculate_temps` / `_read_hcf_table` in `analyze` are
    expanded over the CFG (reaching definitions)."""
    from . import _c19_r3 as V
    repo = ctx.repo
    gp = repo.func('hotspot', '_get_peak_dt')
    V.peak_rises(ctx, gp, PIN_COL)
    # (which rises `dT` holds is decided on values by C19.R8,
    # rules/_f_c19.py: the whole result of _get_peak_dt(r_obj, asm_name, k))
    an = repo.func('hotspot', 'analyze')
    V.wiring(ctx, an, repo.func('hotspot', 'calculate_temps'))


# ---------------------------------------------------------------------------
# R4: parallel containers are permuted consistently

def _is_gather(value, cont, perm):
    """value re-orders container `cont` (source text) by a gather through
    the permutation name `perm`."""
    if isinstance(value, ast.Subscript) and isinstance(value.slice, ast.Name)\
            and value.slice.id == perm:
        return cont in src(value.value)
    if isinstance(value, ast.ListComp) and len(value.generators) == 1:
        g = value.generators[0]
        if isinstance(g.iter, ast.Name) and g.iter.id == perm and \
                isinstance(g.target, ast.Name) and not g.ifs and \
                isinstance(value.elt, ast.Subscript) and \
                src(value.elt.value) == cont and \
                src(value.elt.slice) == g.target.id:
            return True
    if isinstance(value, ast.Call) and call_name(value) in ('np.take',) and \
            len(value.args) >= 2 and src(value.args[1]) == perm:
        return cont in src(value.args[0])
    if isinstance(value, ast.Call) and call_name(value) in (
            'np.array', 'np.asarray', 'list', 'np.vstack') and value.args:
        return _is_gather(value.args[0], cont, perm)
    return False


def r4(ctx):
    fi = ctx.repo.func('hotspot', 'analyze')
    perms = [st for st in walk_no_nested(fi.node) if isinstance(st, ast.Assign)
             and isinstance(st.targets[0], ast.Name)
             and isinstance(st.value, ast.Call) and (
                 call_name(st.value) in ('np.argsort',) or (
                     isinstance(st.value.func, ast.Attribute)
                     and st.value.func.attr == 'argsort'))]
    if len(perms) != 1:
        raise AnalysisError('hotspot.analyze: expected one argsort '
                            'permutation, found %d' % len(perms))
    pst = perms[0]
    perm = pst.targets[0].id
    key_cont = src(pst.value.args[0]) if pst.value.args else \
        src(pst.value.func.value)
    rets = [r for r in walk_no_nested(fi.node) if isinstance(r, ast.Return)
            and r.value is not None
            and not isinstance(r.value, ast.Constant)]
    if len(rets) != 1:
        raise AnalysisError('hotspot.analyze: return shape')
    rv = rets[0].value
    returned = [src(e) for e in (rv.elts if isinstance(rv, ast.Tuple)
                                 else [rv])]
    ksub = key_cont[key_cont.index('['):] if '[' in key_cont else ''
    ctx.require(key_cont.split('[')[0] in returned, 'C19.R4', fi, pst,
                'the permutation must sort the returned id list',
                key=fi.full + ' | permutation key')
    # no scatter through the permutation
    for n in walk_no_nested(fi.node):
        if isinstance(n, ast.Subscript) and isinstance(n.ctx, ast.Store) and \
                any(isinstance(x, ast.Name) and x.id == perm
                    for x in ast.walk(n.slice)):
            ctx.violation('C19.R4', fi, n, 'rows are scattered through the '
                          'sorting permutation (x[%s] = ...): that applies '
                          'the inverse permutation, so temperatures are '
                          'attached to the wrong assembly ids' % perm,
                          key=fi.full + ' | scatter through ' + perm)
    blk = parent(pst)
    body = [s_ for s_ in walk_no_nested(fi.node)
            if isinstance(s_, ast.Assign) and s_.lineno > pst.lineno]
    for name in returned:
        cont = name + ksub
        # the last assignment to the container after the permutation is a
        # gather of the container (possibly stacked first)
        asg = [s_ for s_ in body if src(s_.targets[0]) == cont]
        ok = False
        seen_gather = 0
        for s_ in asg:
            if _is_gather(s_.value, cont, perm):
                seen_gather += 1
        ok = seen_gather == 1
        ctx.require(ok, 'C19.R4', fi, asg[-1] if asg else pst,
                    'returned container %s must be re-ordered exactly once '
                    'by a gather through %s (found %d)' % (cont, perm,
                                                           seen_gather),
                    key='%s | gather %s' % (fi.full, name))
    # lockstep extension: ids and rows are extended in the same block
    ext = {}
    for n in walk_no_nested(fi.node):
        if isinstance(n, ast.AugAssign) and isinstance(n.op, ast.Add) and \
                src(n.target).split('[')[0] in returned:
            ext.setdefault(src(n.target).split('[')[0], []).append(n)
        if isinstance(n, ast.Call) and isinstance(n.func, ast.Attribute) and \
                n.func.attr in ('append', 'extend') and \
                src(n.func.value).split('[')[0] in returned:
            ext.setdefault(src(n.func.value).split('[')[0], []).append(n)
    ok = set(ext) == set(returned) and all(len(v) == 1 for v in ext.values())
    if ok:
        def blk_of(n):
            st = n
            while not isinstance(st, ast.stmt):
                st = parent(st)
            return parent(st)
        ok = len({id(blk_of(v[0])) for v in ext.values()}) == 1
    ctx.require(ok, 'C19.R4', fi, fi.node,
                'ids and temperature rows must be extended once each, in the '
                'same block (same assembly type, same location)',
                key=fi.full + ' | lockstep extension')


# ---------------------------------------------------------------------------
# R5: column map of the clad split

def _slice_range(sl, n):
    """Concrete index list selected by a slice / index node on length n."""
    if isinstance(sl, ast.Slice):
        lo = U.const_eval(sl.lower) if sl.lower is not None else None
        hi = U.const_eval(sl.upper) if sl.upper is not None else None
        return list(range(n))[slice(lo, hi)]
    v = U.const_eval(sl)
    return [list(range(n))[v]]


def r5(ctx):
    fi = ctx.repo.func('hotspot', '_split_clad_subfactors')
    subf = fi.params[0]
    stores = []
    for t, st in U.stores(fi.node):
        if isinstance(t, ast.Subscript) and isinstance(t.slice, ast.Tuple) \
                and len(t.slice.elts) == 2 and isinstance(st, ast.Assign) \
                and isinstance(st.value, ast.Subscript) and isinstance(
                    st.value.slice, ast.Tuple) and \
                len(st.value.slice.elts) == 2 and \
                src(st.value.value).startswith(subf):
            stores.append((t, st))
    if len(stores) < 2:
        raise AnalysisError('_split_clad_subfactors: column stores')

    def sigma(j):
        return j if j <= 2 else (2 if j == 3 else j - 1)
    for W in (3, 4, 5, 6):
        new = [None] * (W + 1)
        bad = None
        for t, st in sorted(stores, key=lambda x: x[1].lineno):
            try:
                dst = _slice_range(t.slice.elts[1], W + 1)
                sr = _slice_range(st.value.slice.elts[1], W)
            except (ValueError, IndexError, TypeError):
                raise AnalysisError('_split_clad_subfactors: column slice '
                                    'not constant')
            if len(dst) != len(sr):
                bad = 'columns %s <- %s have different widths (the store ' \
                      'would raise or broadcast)' % (dst, sr)
                break
            for a, b_ in zip(dst, sr):
                new[a] = b_
        if bad is None:
            miss = [j for j, v in enumerate(new) if v is None]
            wrong = [(j, v) for j, v in enumerate(new)
                     if v is not None and v != sigma(j)]
            if miss:
                bad = 'new column(s) %s are never written (stay 0: the ' \
                      'corresponding temperature rise is dropped)' % miss
            elif wrong:
                bad = 'new column %d is taken from old column %d, ' \
                      'expected %d' % (wrong[0][0], wrong[0][1],
                                       sigma(wrong[0][0]))
        ctx.require(bad is None, 'C19.R5', fi, stores[0][1],
                    'table with %d term columns: %s' % (W, bad),
                    note='width %d' % W,
                    key='%s | column map width %d' % (fi.full, W))


def r6(ctx):
    """Every dT-dependent subfactor expression is evaluated and stored: the
    loop over the expression table stores, unconditionally and once,
    _eval_expr(expression, dT of the expression's own column) into the cell
    (type, row, column) the expression was read from."""
    fi = ctx.repo.func('hotspot', '_evaluate_hcf_expr')
    hcf, exprs, dT = fi.params[:3]
    loops = [n for n in fi.node.body if isinstance(n, ast.For)
             and exprs in src(n.iter)]
    if len(loops) != 1:
        raise AnalysisError('_evaluate_hcf_expr: expression loop')
    lp = loops[0]
    comp = {}
    expr_texts = set()
    tg = lp.target
    if isinstance(tg, ast.Tuple) and len(tg.elts) == 2 and \
            src(lp.iter) == '%s.items()' % exprs:
        # for <key>, <expression> in expr_dict.items()
        expr_texts.add(src(tg.elts[1]))
        tg = tg.elts[0]
    if isinstance(tg, ast.Name):
        k = tg.id
        comp = {'%s[0]' % k: 0, '%s[1]' % k: 1, '%s[2]' % k: 2}
        expr_texts.add('%s[%s]' % (exprs, k))
    elif isinstance(tg, ast.Tuple) and len(tg.elts) == 3 and all(
            isinstance(e, ast.Name) for e in tg.elts):
        k = src(tg)
        comp = {e.id: i for i, e in enumerate(tg.elts)}
        expr_texts.add('%s[%s]' % (exprs, k))
        expr_texts.add('%s[%s]' % (exprs, k.strip('()')))
    else:
        raise AnalysisError('_evaluate_hcf_expr: expression loop target')
    for a in ast.walk(lp):
        if isinstance(a, ast.Assign) and isinstance(a.targets[0], ast.Tuple) \
                and src(a.value) == k and len(a.targets[0].elts) == 3:
            for i, e in enumerate(a.targets[0].elts):
                comp[src(e)] = i
    sts = [(t, st) for t, st in U.stores(lp)
           if isinstance(t, ast.Subscript) and src(t).startswith(hcf)]
    jumps = [n for n in ast.walk(lp) if isinstance(n, (ast.Continue,
                                                       ast.Break,
                                                       ast.Return))]
    ctx.require(len(sts) == 1 and not jumps, 'C19.R6', fi,
                (jumps or [s_[1] for s_ in sts[1:]] or [lp])[0],
                'each expression must be evaluated and stored exactly once '
                'per pass of the loop (found %d stores, %d early exits): an '
                'expression that is skipped leaves its uncertainty out of '
                'the hot-spot temperature' % (len(sts), len(jumps)),
                key=fi.full + ' | one unconditional store')
    if not sts:
        return
    t, st = sts[0]
    inner_guards = [g for g, pol in U.guards(st)
                    if lp in _anc(g)]
    ctx.require(not inner_guards, 'C19.R6', fi, st,
                'the store of the evaluated expression is conditional on %s'
                % [src(g) for g in inner_guards],
                key=fi.full + ' | store unguarded')
    # target cell = (k[0])[:, k[1], k[2]]
    ok_t = isinstance(t.value, ast.Subscript) and src(t.value.value) == hcf \
        and comp.get(src(t.value.slice)) == 0 and isinstance(
            t.slice, ast.Tuple) and len(t.slice.elts) == 3 and \
        src(t.slice.elts[0]) == ':' and \
        comp.get(src(t.slice.elts[1])) == 1 and \
        comp.get(src(t.slice.elts[2])) == 2
    v = U.value_at(fi.node, st.value, st.lineno,
                   keep=tuple(fi.params) + tuple(
                       x.id for x in ast.walk(lp.target)
                       if isinstance(x, ast.Name)) + tuple(
                       c for c in comp if c.isidentifier()))
    ok_v = isinstance(v, ast.Call) and call_name(v) == '_eval_expr' and \
        len(v.args) == 2 and src(v.args[0]) in expr_texts and \
        isinstance(v.args[1], ast.Subscript) and \
        src(v.args[1].value) == dT and isinstance(
            v.args[1].slice, ast.Tuple) and len(v.args[1].slice.elts) == 2 \
        and src(v.args[1].slice.elts[0]) == ':' and \
        comp.get(src(v.args[1].slice.elts[1])) == 2
    ctx.require(ok_t and ok_v, 'C19.R6', fi, st,
                'expression (type, row, column) must be evaluated with the '
                'temperature rises of its own column for every assembly '
                '(dT[:, column]) and stored into cell [:, row, column] of '
                'its own type; got `%s = %s`'
                % (src(t), ' '.join(src(v).split())),
                key=fi.full + ' | cell and column')


def _anc(n):
    from ..core import parent
    out = []
    while n is not None:
        out.append(n)
        n = parent(n)
    return out
