"""C17.R10 -- only what the user wrote passes through a unit conversion.

Clause.  The unit converters of the reader (`convert_length`,
`convert_temperature`, `convert_mass_flow_rate`) act on the *content* of an
input path P at the moment `convert_units` runs.  That content is one of

  (a) the user's entry, or the default of P in the ConfigObj schema
      `input_template.txt` (filled in by validation, long before conversion),
  (b) a value stored into P by the reader before `convert_units` is called,
  (c) whatever expression the converter itself wraps into `conv(...)`.

The same physical problem gives the same internal SI data only if every such
value is *unit-covariant*: a length that scales with the user's unit (a
homogeneous function of degree 1 of raw user lengths), an absolute
temperature made of raw user temperatures (+ raw differences), or a value on
which every conversion of that dimension is the identity (None / an empty
list; for the linear conversions the number 0).  A number that does not come
from the user -- a schema default, a literal or a module constant in the
reader -- is by the program's convention a quantity in SI; sent through the
conversion it becomes a different quantity for every unit system, while the
SI run (which skips the conversion) keeps it.

The rule evaluates all three sources with a small dimensional domain
(`num c` exact constant, `lin k` homogeneous of degree k in the raw values of
the dimension, `abs` absolute temperature, `none`, `unk`, `mix`), and takes
the set of fixed points of a dimension from the affine maps of the
`utils._x_to_<SI>` converters themselves (exact rationals), not from a list.
"""
import ast
from fractions import Fraction

from ..core import (AnalysisError, call_name, const, parent, src,
                    walk_no_nested)
from ..cfg import cfg_of
from .. import util as U
from .. import schema as S
from .. import inputpaths as IP
from . import c17 as C

PROPS = ('C17',)
RULE = 'C17.R10'

TEMPLATE = 'dassh/input_template.txt'

# atoms of the domain
NONE, UNK, ABS = 'none', 'unk', 'abs'


def _num(v):
    return ('num', Fraction(str(v)))


def _lin(k):
    return ('lin', k)


def _mix(why):
    return ('mix', why)


def _is(a, tag):
    return isinstance(a, tuple) and a[0] == tag


def _tag(atoms):
    def one(a):
        if _is(a, 'num'):
            return str(float(a[1]))
        if _is(a, 'lin'):
            return 'deg%d' % a[1]
        if _is(a, 'mix'):
            return 'mixed'
        return a
    return '{%s}' % ', '.join(sorted(one(a) for a in atoms))


def _show(a):
    if _is(a, 'num'):
        return 'the number %s' % (float(a[1]) if a[1].denominator != 1
                                  else int(a[1]))
    if _is(a, 'lin'):
        return {0: 'a dimensionless value (it does not scale with the '
                   'user\'s unit)',
                1: 'a raw difference / linear quantity'}.get(
                       a[1], 'a quantity of degree %d in the raw values' % a[1])
    if _is(a, 'mix'):
        return a[1]
    return {ABS: 'an absolute raw temperature', NONE: 'None',
            UNK: 'unknown'}[a]


# ---------------------------------------------------------------------------
# arithmetic of atoms

def _add(x, y, sub=False):
    if _is(x, 'mix'):
        return x
    if _is(y, 'mix'):
        return y
    if x == NONE:           # [] + list, None never takes part in arithmetic
        return y
    if y == NONE:
        return x
    if UNK in (x, y):
        return UNK
    if _is(x, 'num') and _is(y, 'num'):
        return ('num', x[1] - y[1] if sub else x[1] + y[1])
    if _is(y, 'num') and y[1] == 0:
        return x
    if _is(x, 'num') and x[1] == 0:
        if y == ABS and sub:
            return _mix('the negative of an absolute temperature')
        return y
    # a constant is a quantity of degree 0
    dx = 0 if _is(x, 'num') else x
    dy = 0 if _is(y, 'num') else y
    dx = dx[1] if _is(dx, 'lin') else dx
    dy = dy[1] if _is(dy, 'lin') else dy
    if dx == ABS and dy == ABS:
        return _lin(1) if sub else _mix('the sum of two absolute '
                                        'temperatures')
    if dx == ABS:
        return ABS if dy == 1 else _mix(
            'an absolute raw temperature %s a number that is not in the '
            'user\'s unit' % ('minus' if sub else 'plus'))
    if dy == ABS:
        if sub:
            return _mix('a difference minus an absolute temperature')
        return ABS if dx == 1 else _mix(
            'a number that is not in the user\'s unit plus an absolute raw '
            'temperature')
    if dx == dy:
        return _lin(dx)
    return _mix('the %s of a raw value in the user\'s unit and a number '
                'that is not in the user\'s unit (degrees %d and %d)'
                % ('difference' if sub else 'sum', dx, dy))


def _mul(x, y, div=False):
    if _is(x, 'mix'):
        return x
    if _is(y, 'mix'):
        return y
    if _is(x, 'num') and x[1] == 0:
        return x
    if _is(y, 'num') and y[1] == 0:
        return UNK if div else y
    if UNK in (x, y) or NONE in (x, y):
        return UNK
    if _is(x, 'num') and _is(y, 'num'):
        return ('num', x[1] / y[1] if div else x[1] * y[1])
    if ABS in (x, y):
        return _mix('an absolute raw temperature %s a factor'
                    % ('divided by' if div else 'times'))
    dx = 0 if _is(x, 'num') else x[1]
    dy = 0 if _is(y, 'num') else y[1]
    return _lin(dx - dy if div else dx + dy)


def _pairs(f, xs, ys):
    out = {f(x, y) for x in xs for y in ys}
    return _cap(out)


def _cap(s):
    s = frozenset(s)
    if len(s) > 12:
        bad = [a for a in s if _is(a, 'mix') or _is(a, 'num')]
        return frozenset(bad[:6]) | {UNK}
    return s


# ---------------------------------------------------------------------------
# fixed points of the conversions, from utils' own converters

def _conversions(ctx):
    """{dimension: [(a, b)] affine maps user unit -> SI} read from the
    one-line converters of dassh.utils."""
    um = ctx.repo.mod('utils')
    si = {'meters': 'length', 'kelvin': 'temperature',
          'kilograms': 'mass', 'seconds': 'time'}
    maps = {}
    for q, fi in um.funcs.items():
        if not (q.startswith('_') and '_to_' in q and fi.cls is None):
            continue
        a, _, b = q[1:].partition('_to_')
        if a in C.UNIT_WORD and b in si:
            f = C._affine(fi)
            if f is None:
                raise AnalysisError('utils.%s is not an affine map: the set '
                                    'of values a conversion leaves unchanged '
                                    'cannot be derived' % q)
            maps.setdefault(si[b], []).append((q, f))
    for dim, n in (('length', 4), ('temperature', 2), ('mass', 1),
                   ('time', 2)):
        if len(maps.get(dim, [])) < n:
            raise AnalysisError('utils: expected >= %d converters into the SI '
                                'unit of %s, found %d'
                                % (n, dim, len(maps.get(dim, []))))
    # time sits in the denominator of a flow rate; both parts are linear
    maps['mass_flow_rate'] = maps.pop('mass') + maps.pop('time')
    return maps


def _changed_by(maps, dim, v):
    """Name of a converter of the dimension that does not map v to v."""
    for q, (a, b) in maps[dim]:
        if a * v + b != v:
            return q, a * v + b
    return None


# ---------------------------------------------------------------------------
# classification of input paths

def _kind_of(path, keys, sections):
    """(canonical path, kind) with kind in length / temperature /
    temperature-difference / mass_flow_rate / dimensionless / None."""
    if path and path[0] == 'Assignment':
        last = path[-1]
        canon = ('Assignment', 'ByPosition', '*', '*', last)
        return canon, {'outlet_temp': 'temperature',
                       'delta_temp': 'temperature-difference',
                       'flowrate': 'mass_flow_rate'}.get(last)
    kind, obj = IP.match_schema(path, keys, sections)
    if kind not in ('key', 'list'):
        return None, None
    p = obj.path
    if p in C.LENGTH or p in C.FOLDED_LENGTH:
        return p, 'length'
    if p in C.TEMPERATURE:
        return p, 'temperature'
    if p in C.DIMENSIONLESS_OR_OTHER and obj.typ in ('float', 'float_list') \
            or obj.typ in ('integer', 'int_list'):
        return p, 'dimensionless'
    return p, None


# ---------------------------------------------------------------------------
# abstract evaluation of an expression of the reader

_PASS = {'float', 'abs', 'list', 'set', 'sorted', 'tuple', 'round',
         'reversed', 'deepcopy', 'frozenset', 'sum',
         'np.round', 'np.around', 'np.array', 'np.asarray', 'np.float64',
         'np.abs', 'np.unique', 'np.sort', 'np.sum', 'np.cumsum',
         'np.atleast_1d', 'copy.deepcopy', 'copy.copy'}
_ALT = {'max', 'min', 'np.max', 'np.min', 'np.maximum', 'np.minimum',
        'np.amax', 'np.amin'}
_COUNT = {'len', 'int', 'range', 'bool'}
_GROW = {'append': 0, 'add': 0, 'extend': 0, 'insert': 1}


class Eval:
    """Dimensional value of expressions of one function, for one dimension
    (`dim`).  Flow-insensitive in the locals: a local stands for the union
    of everything bound to it (assignments, loops, appended elements), so an
    alternative that exists on *some* path is seen."""

    def __init__(self, ctx, fi, roots, keys, sections, dim, keep=()):
        self.ctx, self.fi, self.roots = ctx, fi, set(roots)
        self.keys, self.sections, self.dim = keys, sections, dim
        self.keep = set(keep)
        self.aliases = IP.local_aliases_with(fi.node, self.roots, {})
        self.busy = set()
        self.reads = set()       # canonical paths of the dimension read
        self.modconst = {}
        for nm, v in fi.mod.globals.items():
            try:
                c = U.const_eval(v)
            except Exception:
                continue
            if isinstance(c, (int, float)) and not isinstance(c, bool):
                self.modconst[nm] = c
        self.grow = {}
        for n in walk_no_nested(fi.node):
            if isinstance(n, ast.Call) and isinstance(n.func, ast.Attribute) \
                    and n.func.attr in _GROW and isinstance(
                        n.func.value, ast.Name):
                i = _GROW[n.func.attr]
                if len(n.args) > i:
                    self.grow.setdefault(n.func.value.id, []).append(
                        n.args[i])

    # -- input reads --
    def read(self, paths):
        out = set()
        for p in paths:
            canon, kind = _kind_of(p, self.keys, self.sections)
            if kind is None:
                out.add(UNK)
            elif kind == 'dimensionless':
                out.add(_lin(0))
            elif kind == self.dim:
                self.reads.add(canon)
                out.add(ABS if kind == 'temperature' else _lin(1))
            elif kind == 'temperature-difference' and \
                    self.dim == 'temperature':
                self.reads.add(canon)
                out.add(_lin(1))
            else:
                out.add(UNK)     # a quantity of another dimension
        return frozenset(out)

    def _resolve(self, e):
        try:
            return IP.resolve(self.fi.node, e, self.roots, self.aliases,
                              line=getattr(e, 'lineno', 0))
        except Exception:
            return None

    # -- expressions --
    def atoms(self, e, depth=0):
        if depth > 14:
            return frozenset({UNK})
        d = depth + 1
        if isinstance(e, ast.Constant):
            v = e.value
            if v is None:
                return frozenset({NONE})
            if isinstance(v, bool) or not isinstance(v, (int, float)):
                return frozenset({UNK})
            return frozenset({_num(v)})
        if isinstance(e, ast.UnaryOp):
            x = self.atoms(e.operand, d)
            if isinstance(e.op, ast.UAdd):
                return x
            if isinstance(e.op, ast.USub):
                return _pairs(lambda a, b: _add(a, b, sub=True),
                              {_num(0)}, x)
            return frozenset({UNK})
        if isinstance(e, ast.BinOp):
            x, y = self.atoms(e.left, d), self.atoms(e.right, d)
            if isinstance(e.op, ast.Add):
                return _pairs(_add, x, y)
            if isinstance(e.op, ast.Sub):
                return _pairs(lambda a, b: _add(a, b, sub=True), x, y)
            if isinstance(e.op, ast.Mult):
                return _pairs(_mul, x, y)
            if isinstance(e.op, ast.Div):
                return _pairs(lambda a, b: _mul(a, b, div=True), x, y)
            if isinstance(e.op, ast.Pow):
                n = const(e.right)
                if isinstance(n, int) and not isinstance(n, bool) and n >= 1:
                    out = x
                    for _ in range(n - 1):
                        out = _pairs(_mul, out, x)
                    return out
            return frozenset({UNK})
        if isinstance(e, ast.BoolOp):
            out = set()
            for v in e.values:
                out |= self.atoms(v, d)
            return _cap(out)
        if isinstance(e, ast.IfExp):
            return _cap(self.atoms(e.body, d) | self.atoms(e.orelse, d))
        if isinstance(e, (ast.List, ast.Tuple, ast.Set)):
            out = {NONE} if not e.elts else set()
            for v in e.elts:
                out |= self.atoms(v.value if isinstance(v, ast.Starred)
                                  else v, d)
            return _cap(out)
        if isinstance(e, (ast.ListComp, ast.SetComp, ast.GeneratorExp)):
            return self.atoms(e.elt, d)     # targets found through parents
        if isinstance(e, ast.Call):
            return self.call(e, d)
        if isinstance(e, (ast.Subscript, ast.Attribute)):
            ps = self._resolve(e)
            if ps:
                return self.read(ps)
            if isinstance(e, ast.Subscript):
                return self.atoms(e.value, d)     # element of a local list
            return frozenset({UNK})
        if isinstance(e, ast.Name):
            return self.name(e, d)
        return frozenset({UNK})

    def call(self, e, d):
        nm = call_name(e) or ''
        if isinstance(e.func, ast.Attribute) and e.func.attr == 'get' \
                and e.args:
            ps = self._resolve(e)
            if ps:
                out = set(self.read(ps))
                if len(e.args) > 1:
                    out |= self.atoms(e.args[1], d)
                return _cap(out)
            return frozenset({UNK})
        if isinstance(e.func, ast.Attribute) and e.func.attr in (
                'copy', 'tolist', 'values') and not e.args:
            return self.atoms(e.func.value, d)
        if nm in ('sum', 'np.sum') and e.args and isinstance(
                e.args[0], (ast.List, ast.Tuple)) and e.args[0].elts:
            out = self.atoms(e.args[0].elts[0], d)
            for v in e.args[0].elts[1:]:
                out = _pairs(_add, out, self.atoms(v, d))
            return out
        if nm in _PASS and e.args:
            return self.atoms(e.args[0], d)
        if nm in _ALT and e.args:
            out = set()
            for a in e.args:
                out |= self.atoms(a, d)
            return _cap(out)
        if nm in _COUNT:
            return frozenset({_lin(0)})
        return frozenset({UNK})

    def name(self, e, d):
        nm = e.id
        if nm in self.keep:
            return frozenset({UNK})
        # bound by an enclosing comprehension of the original tree
        a = parent(e)
        while a is not None and a is not self.fi.node:
            if isinstance(a, (ast.ListComp, ast.SetComp, ast.GeneratorExp,
                              ast.DictComp)):
                for g in a.generators:
                    r = self.bound_by(g.target, g.iter, nm, d)
                    if r is not None:
                        return r
            a = parent(a)
        if nm in self.busy:
            return frozenset()
        defs = U.assigns_of(self.fi.node, nm)
        grow = self.grow.get(nm, [])
        if not defs and not grow:
            ps = self._resolve(e)
            if ps:
                return self.read(ps)
            if nm in self.modconst and nm not in self.fi.params:
                return frozenset({_num(self.modconst[nm])})
            return frozenset({UNK})          # parameter / global / builtin
        self.busy.add(nm)
        try:
            seq = self.sequential(e, nm, defs, grow, d)
            if seq is not None:
                return seq
            out = set()
            if nm in self.fi.params:
                out.add(UNK)
            for st in defs:
                if isinstance(st, ast.Assign):
                    if len(st.targets) == 1 and isinstance(
                            st.targets[0], ast.Name):
                        out |= self.atoms(st.value, d)
                    else:
                        out |= self.unpack(st, nm, d)
                elif isinstance(st, ast.AnnAssign):
                    out |= self.atoms(st.value, d) if st.value is not None \
                        else {UNK}
                elif isinstance(st, ast.AugAssign):
                    y = self.atoms(st.value, d)
                    if isinstance(st.op, ast.Add):
                        out |= _pairs(_add, self._others(nm, st, d), y)
                    elif isinstance(st.op, ast.Sub):
                        out |= _pairs(lambda a, b: _add(a, b, sub=True),
                                      self._others(nm, st, d), y)
                    elif isinstance(st.op, ast.Mult):
                        out |= _pairs(_mul, self._others(nm, st, d), y)
                    elif isinstance(st.op, ast.Div):
                        out |= _pairs(lambda a, b: _mul(a, b, div=True),
                                      self._others(nm, st, d), y)
                    else:
                        out.add(UNK)
                elif isinstance(st, ast.For):
                    r = self.bound_by(st.target, st.iter, nm, d)
                    out |= r if r is not None else {UNK}
                else:
                    out.add(UNK)
            for v in grow:
                out |= self.atoms(v, d)
            return _cap(out)
        finally:
            self.busy.discard(nm)

    def sequential(self, e, nm, defs, grow, d):
        """Exact value of a local whose definitions are plain / augmented
        assignments of one statement list, all in front of the use: the
        last plain assignment, updated by the augmented ones after it."""
        if grow or nm in self.fi.params or not hasattr(e, 'lineno'):
            return None
        blocks = set()
        for st in defs:
            if not (isinstance(st, ast.AugAssign) or (
                    isinstance(st, ast.Assign) and len(st.targets) == 1
                    and isinstance(st.targets[0], ast.Name))):
                return None
            if st.lineno >= e.lineno:
                return None
            par = parent(st)
            blk = [b for f in ('body', 'orelse', 'finalbody')
                   for b in [getattr(par, f, None)] if isinstance(b, list)
                   and any(x is st for x in b)]
            if not blk:
                return None
            blocks.add(id(blk[0]))
        if len(blocks) != 1:
            return None
        cur = None
        for st in defs:
            if isinstance(st, ast.Assign):
                cur = self.atoms(st.value, d)
                continue
            if cur is None:
                return None
            y = self.atoms(st.value, d)
            if isinstance(st.op, ast.Add):
                cur = _pairs(_add, cur, y)
            elif isinstance(st.op, ast.Sub):
                cur = _pairs(lambda a, b: _add(a, b, sub=True), cur, y)
            elif isinstance(st.op, ast.Mult):
                cur = _pairs(_mul, cur, y)
            elif isinstance(st.op, ast.Div):
                cur = _pairs(lambda a, b: _mul(a, b, div=True), cur, y)
            else:
                cur = frozenset({UNK})
        return cur

    def _others(self, nm, aug, d):
        """Value of a local in front of an augmented assignment: every other
        plain definition of it."""
        out = set()
        for st in U.assigns_of(self.fi.node, nm):
            if st is aug:
                continue
            if isinstance(st, ast.Assign) and len(st.targets) == 1 and \
                    isinstance(st.targets[0], ast.Name):
                out |= self.atoms(st.value, d)
            elif isinstance(st, ast.For):
                r = self.bound_by(st.target, st.iter, nm, d)
                out |= r if r is not None else {UNK}
            elif not isinstance(st, ast.AugAssign):
                out.add(UNK)
        return frozenset(out) or frozenset({UNK})

    def unpack(self, st, nm, d):
        out = set()
        for t in st.targets:
            if isinstance(t, (ast.Tuple, ast.List)) and isinstance(
                    st.value, (ast.Tuple, ast.List)) and len(t.elts) == len(
                        st.value.elts):
                for te, ve in zip(t.elts, st.value.elts):
                    if isinstance(te, ast.Name) and te.id == nm:
                        out |= self.atoms(ve, d)
            elif isinstance(t, ast.Name) and t.id == nm:
                out |= self.atoms(st.value, d)       # x = y = value
            elif any(isinstance(x, ast.Name) and x.id == nm
                     for x in ast.walk(t)):
                out.add(UNK)
        return out

    def bound_by(self, target, it, nm, d):
        """Value of loop / comprehension variable nm bound by `for target
        in it`, None if target does not bind nm."""
        if isinstance(target, ast.Name):
            if target.id != nm:
                return None
            if isinstance(it, ast.Call):
                f = call_name(it) or ''
                if f == 'range':
                    return frozenset({_lin(0)})
                if f in ('enumerate', 'zip'):
                    return frozenset({UNK})
                if isinstance(it.func, ast.Attribute) and it.func.attr in (
                        'keys', 'items'):
                    return frozenset({UNK})
            lit = U.literal_list(it)
            if isinstance(lit, (list, tuple)) and lit and all(
                    isinstance(x, str) for x in lit):
                return frozenset({UNK})          # key names
            ps = self._resolve(it)
            if ps:
                # iterating a section yields its keys, a list key its members
                if all(IP.match_schema(p, self.keys, self.sections)[0]
                       == 'section' for p in ps):
                    return frozenset({UNK})
            return self.atoms(it, d)
        if not any(isinstance(x, ast.Name) and x.id == nm
                   for x in ast.walk(target)):
            return None
        if isinstance(target, (ast.Tuple, ast.List)) and isinstance(
                it, ast.Call):
            f = call_name(it) or ''
            names = [t.id if isinstance(t, ast.Name) else None
                     for t in target.elts]
            if nm in names:
                i = names.index(nm)
                if f == 'enumerate' and it.args and len(names) == 2:
                    return frozenset({_lin(0)}) if i == 0 else \
                        self.atoms(it.args[0], d)
                if f == 'zip' and len(it.args) == len(names):
                    return self.atoms(it.args[i], d)
                if isinstance(it.func, ast.Attribute) and \
                        it.func.attr == 'items' and len(names) == 2 and i == 1:
                    return self.atoms(it.func.value, d)
        return frozenset({UNK})


# ---------------------------------------------------------------------------
# what may be stored into / handed to a conversion of a dimension

def _offending(maps, dim, atoms):
    """[(atom, reason)] for the atoms that are not unit-covariant."""
    bad = []
    for a in sorted(atoms, key=repr):
        if a in (NONE, UNK):
            continue
        if _is(a, 'num'):
            ch = _changed_by(maps, dim, a[1])
            if ch is not None:
                bad.append((a, '%s is not from the user but is changed by '
                               'the %s conversion (utils.%s maps it to %s)'
                            % (_show(a), dim, ch[0], float(ch[1]))))
            continue
        if _is(a, 'mix'):
            bad.append((a, a[1]))
            continue
        if dim == 'temperature':
            if a != ABS:
                bad.append((a, '%s where an absolute temperature in the '
                               'user\'s unit is converted' % _show(a)))
        else:
            if a != _lin(1):
                bad.append((a, '%s where a %s in the user\'s unit is '
                               'converted' % (_show(a), dim.replace(
                                   '_', ' '))))
    return bad


_GETTER_KIND = {'utils.get_length_conversion': 'length',
                'utils.get_temperature_conversion': 'temperature',
                'utils.get_mass_conversion': 'mass_flow_rate',
                'utils.get_time_conversion': 'mass_flow_rate'}
_CONVERTERS = {'convert_length': 'length',
               'convert_temperature': 'temperature',
               'convert_mass_flow_rate': 'mass_flow_rate'}


def _default_of(k):
    """('absent',) | ('none',) | ('nums', [Fraction]) of a schema key."""
    val = None
    for a in S._split_args(k.args):
        if '=' in a:
            nm, v = a.split('=', 1)
            if nm.strip() == 'default':
                val = v.strip()
    if val is None:
        return ('absent',)

    def one(s):
        s = s.strip()
        if len(s) >= 2 and s[0] == s[-1] and s[0] in '\'"':
            s = s[1:-1].strip()
        if s == 'None':
            return None
        try:
            return Fraction(s)
        except (ValueError, ZeroDivisionError):
            raise AnalysisError(
                'schema default %r of %s is not None or a number: cannot '
                'decide whether the unit conversion changes it'
                % (val, IP.fmt(k.path)))
    if val.startswith('list(') and val.endswith(')'):
        inner = val[5:-1].strip()
        vals = [one(x) for x in S._split_args(inner)] if inner else []
        return ('nums', [v for v in vals if v is not None])
    v = one(val)
    return ('none',) if v is None else ('nums', [v])


def run(ctx):
    ctx.decided.append(
        'R10 only what the user wrote passes through a unit conversion: '
        'every value that can reach a unit converter of the reader -- the '
        'argument of conv(...) in convert_length/temperature/mass_flow_rate, '
        'the schema default of every input key read there (and of every key '
        'folded into one before), every value the reader stores into such a '
        'key before convert_units runs -- is unit-covariant (degree-1 '
        'homogeneous in the raw lengths / an absolute raw temperature) or a '
        'fixed point of every utils converter of the dimension (None, [], '
        '0 for lengths); an SI default or literal is never converted')
    repo = ctx.repo
    keys, sections = S.parse_template(repo.template_text)
    maps = _conversions(ctx)
    reaching = {}       # canonical path -> dimension
    n_conv = n_store = n_default = 0

    # ---- (c) the expression handed to the conversion callable -------------
    for fname, dim in _CONVERTERS.items():
        fi, convs = C._converter_info(ctx, fname, None, None)
        # m_conv / t_conv may also be the local identity function
        local_defs = {n.name for n in ast.walk(fi.node)
                      if isinstance(n, ast.FunctionDef) and n is not fi.node}
        for nm in list(convs):
            cn = call_name(convs[nm])
            if _GETTER_KIND.get(cn) != dim:
                raise AnalysisError('%s binds %s to %s: not a converter of '
                                    'the %s dimension' % (fname, nm, cn, dim))
        if not convs:
            raise AnalysisError('%s obtains no utils.get_*_conversion'
                                % fname)
        names = set(convs)
        # aliases of converter names (t_conv = m_conv)
        for st in walk_no_nested(fi.node):
            if isinstance(st, ast.Assign) and len(st.targets) == 1 and \
                    isinstance(st.targets[0], ast.Name) and isinstance(
                        st.value, ast.Name) and (st.value.id in names or
                                                 st.value.id in local_defs):
                names.add(st.targets[0].id)
        ev = Eval(ctx, fi, {fi.params[0] if fi.params else 'data'}, keys,
                  sections, dim, keep=names)
        for c in walk_no_nested(fi.node):
            if not (isinstance(c, ast.Call) and isinstance(c.func, ast.Name)
                    and c.func.id in names):
                continue
            if len(c.args) != 1 or c.keywords:
                raise AnalysisError('%s: conversion call %s not understood'
                                    % (fname, src(c)))
            arg = c.args[0]
            if isinstance(arg, ast.Call) and isinstance(
                    arg.func, ast.Name) and arg.func.id in names:
                continue        # outer(inner(x)): judged at the inner call
            n_conv += 1
            ev.reads = set()
            at = ev.atoms(arg)
            for p in ev.reads:
                reaching.setdefault(p, dim)
            bad = _offending(maps, dim, at)
            what = ' '.join(src(arg).split())
            ctx.require(
                not bad, RULE, fi, c,
                'only what the user wrote may pass through a unit '
                'conversion: the value handed to the %s converter here is '
                'not always a quantity in the user\'s unit [%s] -- the SI '
                'run skips the conversion and keeps that value, every other '
                'unit system turns it into a different quantity'
                % (dim, '; '.join(r for _, r in bad)),
                note='converted value is unit-covariant ' + _tag(at),
                key='%s | converter argument %s' % (fi.full, what[:80]))

    # ---- (b) stores of the reader before convert_units ---------------------
    init = repo.func('read_input', 'DASSH_Input.__init__')
    ci = repo.cls('read_input', 'DASSH_Input')
    g = cfg_of(init)
    conv_calls = [c for c in walk_no_nested(init.node)
                  if isinstance(c, ast.Call)
                  and call_name(c) == 'self.convert_units']
    if len(conv_calls) != 1:
        raise AnalysisError('DASSH_Input.__init__: expected one call of '
                            'self.convert_units, found %d' % len(conv_calls))
    nconv = g.node_containing(conv_calls[0])
    if nconv is None:
        raise AnalysisError('DASSH_Input.__init__: convert_units call not in '
                            'the CFG')
    rm = repo.mod('read_input')
    work = []           # (FuncInfo, frozenset(roots))
    for c in walk_no_nested(init.node):
        if not isinstance(c, ast.Call) or c is conv_calls[0]:
            continue
        nc = g.node_containing(c)
        if nc is None or nc is nconv or not g.path_exists(nc, nconv):
            continue
        work += _callee(repo, rm, ci, init, c, frozenset({'self.data'}))
    work.append((init, frozenset({'self.data'})))
    seen = {}
    while work:
        fi, roots = work.pop()
        k = (fi.full, roots)
        if k in seen:
            continue
        seen[k] = (fi, roots)
        if fi is init:
            continue
        for c in walk_no_nested(fi.node):
            if isinstance(c, ast.Call):
                work += _callee(repo, rm, ci, fi, c, roots)
    if len({f.full for f, _ in seen.values()}) < 20:
        raise AnalysisError('pre-conversion part of the reader: only %d '
                            'functions found, the check_* sequence of '
                            'DASSH_Input.__init__ changed shape' % len(seen))
    # fixpoint: a key folded into a converted key before conversion reaches
    # the converter as well
    reported = set()
    counted = set()
    for _round in range(6):
        before = dict(reaching)
        for fi, roots in seen.values():
            stop = nconv if fi is init else None
            for tgt, val, st in _input_stores(fi, roots):
                if stop is not None:
                    ns = g.node_containing(st)
                    if ns is None or not g.path_exists(ns, stop):
                        continue
                ev = Eval(ctx, fi, roots, keys, sections, None)
                ps = ev._resolve(tgt)
                if not ps:
                    continue
                for p in ps:
                    canon, kind = _kind_of(p, keys, sections)
                    if canon is None or canon not in reaching:
                        continue
                    dim = reaching[canon]
                    ev = Eval(ctx, fi, roots, keys, sections, dim)
                    at = ev.atoms(val)
                    for q in ev.reads:
                        reaching.setdefault(q, dim)
                    ident = (fi.full, id(st), canon)
                    if ident in counted:
                        continue
                    counted.add(ident)
                    n_store += 1
                    bad = _offending(maps, dim, at)
                    ctx.require(
                        not bad, RULE, fi, st,
                        'only what the user wrote may pass through a unit '
                        'conversion: before convert_units runs, the reader '
                        'stores into %s (converted as a %s afterwards) a '
                        'value that is not always a quantity in the user\'s '
                        'unit [%s] -- for an input in SI units the value is '
                        'kept, for every other unit system it is converted '
                        'into a different quantity'
                        % (IP.fmt(canon), dim, '; '.join(r for _, r in bad)),
                        note='value stored into %s before conversion is '
                             'unit-covariant %s' % (IP.fmt(canon), _tag(at)),
                        key='%s | pre-conversion store into %s'
                            % (fi.full, IP.fmt(canon)))
        if reaching == before:
            break
    else:
        raise AnalysisError('C17.R10: set of conversion-reaching keys did '
                            'not stabilise')

    # ---- (a) schema defaults of every key that reaches a converter ---------
    for canon, dim in sorted(reaching.items()):
        if canon[0] == 'Assignment':
            continue            # parsed by DASSH_Assignment: no defaults
        k = keys.get(canon)
        if k is None:
            raise AnalysisError('converted input path %s is not a schema key'
                                % IP.fmt(canon))
        n_default += 1
        d = _default_of(k)
        where = '%s:%d' % (TEMPLATE, k.lineno)
        spec = '%s = %s(%s)' % (k.path[-1], k.typ, k.args)
        if d[0] in ('absent', 'none'):
            ctx.ok(RULE, where, None, '%s: %s' % (
                IP.fmt(canon), 'no default, the user writes it'
                if d[0] == 'absent' else 'default None is never a quantity'))
            continue
        bad = []
        for v in d[1]:
            ch = _changed_by(maps, dim, v)
            if ch is not None:
                bad.append((v, ch))
        if bad:
            v, ch = bad[0]
            ctx.violation(
                RULE, where, None,
                'only what the user wrote may pass through a unit '
                'conversion: the schema default of %s [%s] is the number %s, '
                'and the key is unit-converted by the reader (%s dimension; '
                'utils.%s maps %s to %s) -- when the user omits the key, the '
                'default is kept by an SI input but converted as if it were '
                'written in the user\'s unit by every other input, so the '
                'same problem gets different internal data.  A default of a '
                'converted key must be None (applied after conversion) or a '
                'value every conversion leaves unchanged'
                % (IP.fmt(canon), ' '.join(spec.split()), float(v), dim,
                   ch[0], float(v), float(ch[1])),
                key='%s | converted schema default of %s'
                    % (TEMPLATE, IP.fmt(canon)))
        else:
            ctx.ok(RULE, where, None, '%s: default %s is unchanged by every '
                   '%s conversion' % (IP.fmt(canon),
                                      [float(v) for v in d[1]], dim))

    # vacuity guards: sites confirmed by reading the pinned tree
    # (18 conversion calls, 11 pre-conversion stores, 24 schema keys)
    if not any(i['rule'] == RULE and i['verdict'] != 'holds'
               for i in ctx.instances):
        if n_conv < 15:
            raise AnalysisError('C17.R10 saw %d conversion calls, expected '
                                '>= 15 (rule went blind)' % n_conv)
        if n_store < 8:
            raise AnalysisError('C17.R10 saw %d stores into converted keys '
                                'before convert_units, expected >= 8 (rule '
                                'went blind)' % n_store)
        if n_default < 20:
            raise AnalysisError('C17.R10 saw %d converted schema keys, '
                                'expected >= 20 (rule went blind)'
                                % n_default)
    ctx.extra['C17.R10'] = {'conversion_calls': n_conv,
                            'pre_conversion_stores': n_store,
                            'schema_defaults': n_default,
                            'pre_conversion_functions': sorted(
                                {f.full for f, _ in seen.values()})}
    ctx.trusted.append('C17.R10: call-name tables _PASS/_ALT/_COUNT of '
                       'dsa/rules/_f_c17.py (value-preserving wrappers); '
                       'kind classification of c17.py')


# ---------------------------------------------------------------------------

def _callee(repo, rm, ci, fi, c, roots):
    """[(callee FuncInfo, roots in the callee)] for a call made by a
    pre-conversion function: methods of the reader on self, and module-level
    functions of read_input that receive / return the input dictionary."""
    nm = call_name(c) or ''
    if nm.startswith('self.') and nm.count('.') == 1:
        t = repo.lookup_method(ci, nm[5:])
        if t is not None and t.mod is rm and t.name != 'convert_units':
            return [(t, frozenset({'self.data'}))]
        return []
    if isinstance(c.func, ast.Name) and c.func.id in rm.funcs and \
            rm.funcs[c.func.id].cls is None and \
            c.func.id not in _CONVERTERS:
        t = rm.funcs[c.func.id]
        r = set()
        for i, a in enumerate(c.args):
            if src(a) in roots and i < len(t.params):
                r.add(t.params[i])
        for kw in c.keywords:
            if src(kw.value) in roots and kw.arg:
                r.add(kw.arg)
        st = parent(c)
        if isinstance(st, ast.Assign) and any(src(x) in roots
                                              for x in st.targets):
            for n in walk_no_nested(t.node):
                if isinstance(n, ast.Return) and isinstance(
                        n.value, ast.Name):
                    r.add(n.value.id)
        if r:
            return [(t, frozenset(r))]
    return []


def _input_stores(fi, roots):
    """(target expr, value expr, stmt) of every store a function makes into
    a subscript chain: assignments, augmented assignments, setdefault /
    update calls."""
    out = []

    def put(t, v, st, depth=0):
        out.append((t, v, st))
        # a dict display stored into a section stores each of its entries
        if isinstance(v, ast.Dict) and depth < 4:
            for k, x in zip(v.keys, v.values):
                if k is not None:
                    tk = ast.Subscript(value=t, slice=k, ctx=ast.Store())
                    ast.copy_location(tk, st)
                    put(tk, x, st, depth + 1)
        elif isinstance(v, ast.Call) and call_name(v) == 'dict' and \
                not v.args and depth < 4:
            for kw in v.keywords:
                if kw.arg:
                    ck = ast.Constant(value=kw.arg)
                    ast.copy_location(ck, st)
                    tk = ast.Subscript(value=t, slice=ck, ctx=ast.Store())
                    ast.copy_location(tk, st)
                    put(tk, kw.value, st, depth + 1)
    for n in walk_no_nested(fi.node):
        if isinstance(n, ast.Assign):
            for t in n.targets:
                if isinstance(t, ast.Subscript):
                    put(t, n.value, n)
                elif isinstance(t, (ast.Tuple, ast.List)) and isinstance(
                        n.value, (ast.Tuple, ast.List)) and len(
                            t.elts) == len(n.value.elts):
                    for te, ve in zip(t.elts, n.value.elts):
                        if isinstance(te, ast.Subscript):
                            out.append((te, ve, n))
        elif isinstance(n, ast.AnnAssign) and n.value is not None and \
                isinstance(n.target, ast.Subscript):
            out.append((n.target, n.value, n))
        elif isinstance(n, ast.AugAssign) and isinstance(
                n.target, ast.Subscript):
            val = ast.BinOp(left=n.target, op=n.op, right=n.value)
            out.append((n.target, val, n))
        elif isinstance(n, ast.Call) and isinstance(n.func, ast.Attribute):
            st = n
            while parent(st) is not None and not isinstance(st, ast.stmt):
                st = parent(st)
            if n.func.attr == 'setdefault' and len(n.args) == 2:
                t = ast.Subscript(value=n.func.value, slice=n.args[0],
                                  ctx=ast.Store())
                ast.copy_location(t, n)
                out.append((t, n.args[1], st))
            elif n.func.attr == 'update':
                pairs = []
                if n.args and isinstance(n.args[0], ast.Dict):
                    pairs += [(k, v) for k, v in zip(n.args[0].keys,
                                                     n.args[0].values)
                              if k is not None]
                pairs += [(ast.Constant(value=kw.arg), kw.value)
                          for kw in n.keywords if kw.arg]
                for k, v in pairs:
                    t = ast.Subscript(value=n.func.value, slice=k,
                                      ctx=ast.Store())
                    ast.copy_location(t, n)
                    ast.copy_location(k, n)
                    out.append((t, v, st))
    return out
