"""C08.R9 -- the tiling identities of calculate_geometry hold on every
*value-selected path*, not only on the merged view of the function.

Clause decided.  "The flow areas of all subchannels plus pin and wire
cross-sections tile the inner duct hexagon exactly, and duct-wall and bypass
cells tile their annuli" is quantified over "SE2 geometry flag on/off" and
over bundles with and without wire.  calculate_geometry selects formulae by
tests on *values* of its arguments (the mode flag, `Dw == 0.0`).  A necessary
condition of the clause: for every consistent truth assignment to those
tests, the formulae that are selected together satisfy the identities of
C08.R4 (corner-length closed form, duct / bypass annulus tiling, coolant +
pins + wires = hexagon inside the inner duct).

C08.R4 evaluates the function path-insensitively: of several plain stores to
one element the textually last one wins, so a formula that is replaced in one
mode only is never looked at.  R9 closes that: it

1. classifies every `if` / conditional expression of the function as
   *extent test* (its flow-sensitively expanded condition reads `len()` /
   `.shape` / `.size` of something or a loop variable: it decides which array
   elements exist; the identities are quantified over the existing indices
   by the symbolic index of R4, so these stay merged as in R4) or *value
   test* (everything else: it selects between formulae);
2. splits the value tests into atoms (leaves of and/or/not; `a != b`,
   `a <= b`, `a < b`, `a >= b` are re-spelled over the atoms `a == b`,
   `a > b`, so `if not se2` and `if se2` or `Dw != 0` and `Dw == 0.0` share
   one atom; the atom text is taken after expanding locals, so
   `flag = se2; if flag:` is the atom `se2`);
3. for every *feasible* truth assignment of the atoms (atoms that compare
   one parameter with numbers are checked against each other on sample
   points: `Dw == 0.0` with `Dw > 0` is dropped; lengths are >= 0) builds the
   *path specialisation* of the function (each value test replaced by the
   selected branch, spliced into the enclosing block; locals re-bound in the
   resulting straight line are versioned; a path whose selected branch raises
   at function level is an input rejection and is dropped) and
4. runs the exact hexagon algebra of R4 (`_hexgeom.check`) on each distinct
   specialisation; where every assignment of a specialisation pins a
   parameter to one value (`Dw == 0.0` selected, `Dw > 0` refuted) the
   identities are required for that value only (`fixed`), so a bare-rod
   branch without the wire term is fine.

Nothing is matched by form: hoisting the selected height into a temporary, a
conditional expression instead of an `if`, swapped branches with a negated
test, a renamed flag, commuted factors give the same specialisations up to
algebraic normal form.

Trusted: `_hexgeom` (atom table, closed form), `util.value_at`, lengths are
non-negative.  Limits: a call of a helper that itself branches on the flag
inside an expression is not inlined by the canonicaliser; R4 and R9 then see
an unknown quantity and report it (fail closed, also when the helper is
harmless).  At most 2^6 assignments.
"""
import ast
import itertools

from ..core import (AnalysisError, FuncInfo, const, set_parents, src,
                    walk_no_nested)
from .. import util as U

PROPS = ('C08',)
RULE = 'C08.R9'
MAX_ATOMS = 6


def _s(n):
    return ' '.join(src(n).split())


# ---------------------------------------------------------------------------
# tests -> atoms

def _operand(n):
    v = const(n, None)
    if isinstance(v, (int, float)) and not isinstance(v, bool):
        return repr(float(v))
    return _s(n)


def _atom(leaf):
    """(key, polarity) of a leaf condition."""
    if isinstance(leaf, ast.Compare) and len(leaf.ops) == 1:
        a, b = _operand(leaf.left), _operand(leaf.comparators[0])
        op = leaf.ops[0]
        if isinstance(op, (ast.Eq, ast.NotEq)):
            a, b = sorted((a, b))
            return '%s == %s' % (a, b), isinstance(op, ast.Eq)
        if isinstance(op, (ast.Is, ast.IsNot)):
            return '%s is %s' % (a, b), isinstance(op, ast.Is)
        if isinstance(op, ast.Gt):
            return '%s > %s' % (a, b), True
        if isinstance(op, ast.LtE):
            return '%s > %s' % (a, b), False
        if isinstance(op, ast.Lt):
            return '%s > %s' % (b, a), True
        if isinstance(op, ast.GtE):
            return '%s > %s' % (b, a), False
    return _s(leaf), True


def _leaves(t):
    if isinstance(t, ast.BoolOp):
        for v in t.values:
            yield from _leaves(v)
    elif isinstance(t, ast.UnaryOp) and isinstance(t.op, ast.Not):
        yield from _leaves(t.operand)
    else:
        yield t


def _truth(t, env):
    if isinstance(t, ast.BoolOp):
        vs = [_truth(v, env) for v in t.values]
        return all(vs) if isinstance(t.op, ast.And) else any(vs)
    if isinstance(t, ast.UnaryOp) and isinstance(t.op, ast.Not):
        return not _truth(t.operand, env)
    k, pol = _atom(t)
    return env[k] if pol else not env[k]


def _loop_vars(fn):
    out = set()
    for n in walk_no_nested(fn):
        if isinstance(n, (ast.For, ast.comprehension)):
            out |= {x.id for x in ast.walk(n.target)
                    if isinstance(x, ast.Name)}
    return out


def _is_extent_test(t, loopvars):
    """The condition decides which elements exist (array extents, the
    position in a loop), not which formula applies."""
    for n in ast.walk(t):
        if isinstance(n, ast.Call) and _s(n.func) in (
                'len', 'np.size', 'np.shape', 'np.ndim'):
            return True
        if isinstance(n, ast.Attribute) and n.attr in ('shape', 'size',
                                                       'ndim'):
            return True
        if isinstance(n, ast.Name) and n.id in loopvars:
            return True
    return False


def _pos(n):
    """Identity of a test that survives copying the tree."""
    return (type(n).__name__, getattr(n, 'lineno', 0),
            getattr(n, 'col_offset', 0), getattr(n, 'end_lineno', 0),
            getattr(n, 'end_col_offset', 0), _s(n.test))


def value_tests(fn):
    """{position of the If / IfExp: expanded test} for the value tests of a
    function, and the ordered list of their atoms."""
    loopvars = _loop_vars(fn)
    tests, atoms = {}, []
    nodes = [n for n in walk_no_nested(fn)
             if isinstance(n, (ast.If, ast.IfExp))]
    nodes.sort(key=lambda n: (n.lineno, n.col_offset))
    for n in nodes:
        t = U.value_at(fn, n.test, n.lineno)
        if _is_extent_test(t, loopvars) or _is_extent_test(n.test, loopvars):
            continue
        tests[_pos(n)] = t
        for lf in _leaves(t):
            k = _atom(lf)[0]
            if k not in atoms:
                atoms.append(k)
    return tests, atoms


# ---------------------------------------------------------------------------
# path specialisation

def _copy(n):
    """Copy of a syntax tree without the parent links (which would drag the
    whole module along)."""
    if isinstance(n, ast.AST):
        new = n.__class__()
        for f in n._fields:
            if hasattr(n, f):
                setattr(new, f, _copy(getattr(n, f)))
        for a in n._attributes:
            if hasattr(n, a):
                setattr(new, a, getattr(n, a))
        return new
    if isinstance(n, list):
        return [_copy(x) for x in n]
    return n


class _Select(ast.NodeTransformer):
    def __init__(self, tests, env):
        self.tests = tests
        self.env = env
        self.selected = []      # statements spliced out of a value test
        self.touched = []       # statements holding a selected cond. expr.
        self._stmts = []

    def visit(self, n):
        if isinstance(n, ast.stmt):
            self._stmts.append(n)
            try:
                return super().visit(n)
            finally:
                self._stmts.pop()
        return super().visit(n)

    def visit_If(self, n):
        t = self.tests.get(_pos(n))
        if t is None:
            return self.generic_visit(n)
        out = []
        for st in (n.body if _truth(t, self.env) else n.orelse):
            r = self.visit(st)
            if isinstance(r, list):
                out += r
            elif r is not None:
                out.append(r)
        for st in out:
            if not any(st is x for x in self.selected):
                self.selected.append(st)
        return out

    def visit_IfExp(self, n):
        t = self.tests.get(_pos(n))
        if t is None:
            return self.generic_visit(n)
        if self._stmts and not any(self._stmts[-1] is x
                                   for x in self.touched):
            self.touched.append(self._stmts[-1])
        return self.visit(n.body if _truth(t, self.env) else n.orelse)

    def generic_visit(self, n):
        n = super().generic_visit(n)
        for f in ('body', 'orelse', 'finalbody'):
            b = getattr(n, f, None)
            if isinstance(b, list) and not b and f == 'body' and \
                    isinstance(n, ast.stmt):
                n.body = [ast.copy_location(ast.Pass(), n)]
        return n


def _rejects(stmts):
    """The block cannot complete: it raises / exits at its own level."""
    for st in stmts:
        if isinstance(st, ast.Raise):
            return True
        if isinstance(st, ast.Expr) and isinstance(st.value, ast.Call) and \
                _s(st.value.func) in ('sys.exit', 'exit', 'quit'):
            return True
    return False


class _Rename(ast.NodeTransformer):
    def __init__(self, old, new):
        self.old, self.new = old, new

    def visit_Name(self, n):
        if n.id == self.old and isinstance(n.ctx, ast.Load):
            return ast.copy_location(ast.Name(id=self.new, ctx=n.ctx), n)
        return n


def _versions(fn):
    """Single-assignment form for locals that are re-bound by plain
    assignments at function level only (after the branches were spliced, a
    temporary set before and inside a former `if` has two definitions in one
    straight line): the k-th definition becomes name__vk and every later read
    up to the next definition reads that version."""
    bound = {}
    top = {}
    for n in ast.walk(fn):
        for t in ([n.target] if isinstance(n, (ast.For, ast.AugAssign,
                                               ast.AnnAssign,
                                               ast.comprehension,
                                               ast.NamedExpr))
                  else n.targets if isinstance(n, (ast.Assign, ast.Delete))
                  else [i.optional_vars for i in n.items if i.optional_vars]
                  if isinstance(n, ast.With) else []):
            for x in ast.walk(t):
                if isinstance(x, ast.Name) and not isinstance(x.ctx,
                                                              ast.Load):
                    bound[x.id] = bound.get(x.id, 0) + 1
    for st in fn.body:
        if isinstance(st, ast.Assign) and len(st.targets) == 1 and \
                isinstance(st.targets[0], ast.Name):
            top[st.targets[0].id] = top.get(st.targets[0].id, 0) + 1
    params = {a.arg for a in fn.args.posonlyargs + fn.args.args +
              fn.args.kwonlyargs}
    for name, k in top.items():
        if bound.get(name) != k or k < 2 or name in params:
            continue
        cur = name
        ver = 0
        for i, st in enumerate(fn.body):
            if cur != name:
                fn.body[i] = st = _Rename(name, cur).visit(st)
            if isinstance(st, ast.Assign) and len(st.targets) == 1 and \
                    isinstance(st.targets[0], ast.Name) and \
                    st.targets[0].id == name:
                ver += 1
                if ver > 1:
                    cur = '%s__v%d' % (name, ver)
                    st.targets[0] = ast.copy_location(
                        ast.Name(id=cur, ctx=ast.Store()), st.targets[0])


def specialise(fi, tests, env):
    fn = _copy(fi.node)
    sel = _Select(tests, env)
    body = []
    for st in fn.body:
        r = sel.visit(st)
        body += r if isinstance(r, list) else [r]
    fn.body = body or [ast.Pass()]
    _versions(fn)
    ast.fix_missing_locations(fn)
    set_parents(fn)
    if _rejects(fn.body):
        return None, None
    return FuncInfo(fi.mod, fn, fi.cls, fi.outer), sel.selected + sel.touched


# ---------------------------------------------------------------------------
# running R4's algebra on a specialisation

class _Silent:
    """Context that records nothing (to obtain R3's count formulas, which
    C08.R3 has already judged, a second time)."""

    def __init__(self, repo):
        self.repo = repo

    def require(self, cond, *a, **k):
        return bool(cond)

    def ok(self, *a, **k):
        pass

    def violation(self, *a, **k):
        pass

    def advisory(self, *a, **k):
        pass


class _RepoView:
    def __init__(self, repo, fi):
        self._repo = repo
        self._fi = fi

    def func(self, modname, qual):
        orig = self._repo.func(modname, qual)
        if orig.full == self._fi.full:
            return self._fi
        return orig

    def __getattr__(self, name):
        return getattr(self._repo, name)


_BASE_OF = (('bundle', 'sc_ww'), ('bypass', 'bypass'), ('duct', 'duct'),
            ('wcorner', 'd'))


class _PathCtx:
    """The context handed to _hexgeom.check for one specialisation.  The
    verdicts are buffered; `emit` forwards them under R9 with the path in key
    and message once every path has been judged (a verdict on the whole
    function is then shown at the construct that only failing paths
    select)."""

    def __init__(self, ctx, orig, fi, tag, selected):
        self._ctx = ctx
        self.repo = _RepoView(ctx.repo, fi)
        self._orig = orig
        self._fi = fi
        self._tag = tag
        self.selected = selected
        self.records = []

    @property
    def n(self):
        return len(self.records)

    @property
    def holds(self):
        return all(r[0] for r in self.records)

    def require(self, cond, rule, fi, node, what, note='', key=None):
        self.records.append((bool(cond), fi, node, what, note,
                             key or fi.full))
        return bool(cond)

    @staticmethod
    def _stores_quantity(st, base):
        from ._hexgeom import Geo
        for t in ast.walk(st):
            if isinstance(t, ast.Subscript) and isinstance(t.ctx, ast.Store):
                b, keys, _ = Geo.split(t)
                if b == base and keys and keys[0] in (
                        'area', 'total area', 'wcorner'):
                    return True
        return False

    def _pin(self, node, key, passing, tests):
        """Where to show a verdict on the whole function: the path-selected
        statement (one that no passing path selects) that stores the
        quantity, else the value test of the function that guards a store of
        the quantity, else a path-selected temporary, else the function."""
        if node is not self._fi.node:
            return node
        base = next((b for k, b in _BASE_OF if k in key), None)
        cands = [st for st in self.selected if _s(st) not in passing]
        for st in cands:
            if self._stores_quantity(st, base):
                return st
        for n in walk_no_nested(self._orig.node):
            if isinstance(n, ast.If) and _pos(n) in tests and \
                    self._stores_quantity(n, base):
                return n
        for st in cands:
            if isinstance(st, ast.Assign) and all(
                    isinstance(t, ast.Name) for t in st.targets):
                return st
        return cands[0] if cands else node

    def emit(self, passing, tests):
        for cond, fi, node, what, note, key in self.records:
            if not cond:
                node = self._pin(node, key, passing, tests)
            self._ctx.require(
                cond, RULE, fi, node,
                'on the path [%s] of %s: %s' % (self._tag, fi.qual, what),
                note=note or 'path [%s]: %s' % (self._tag,
                                                key.split(' | ')[-1]),
                key='%s | path %s' % (key, self._tag))


# symbols of _hexgeom for the parameters whose value a path can pin down
_SYMBOL = {'n_ring': 'n', 'P': 'P', 'D': 'D', 'Dw': 'Dw'}
# lengths: admissible values are non-negative (trusted base)
_LENGTHS = ('P', 'D', 'Dw')
# counts: integers from the given minimum upwards (trusted base)
_COUNTS = {'n_ring': 1}
_NUM = r'-?[0-9.]+(?:e-?[0-9]+)?'
_ID = r'[A-Za-z_]\w*'


def _constraint(atom):
    """(name, op, constant) for an atom that compares a plain name with a
    number: op '==' (name == c), '>' (name > c), '<' (name < c)."""
    import re
    from fractions import Fraction
    for pat, op, swap in (
            (r'(%s) == (%s)' % (_NUM, _ID), '==', True),
            (r'(%s) == (%s)' % (_ID, _NUM), '==', False),
            (r'(%s) > (%s)' % (_ID, _NUM), '>', False),
            (r'(%s) > (%s)' % (_NUM, _ID), '<', True)):
        m = re.fullmatch(pat, atom)
        if m:
            a, b = m.groups()
            name, cst = (b, a) if swap else (a, b)
            return name, op, Fraction(cst)
    return None


def _regions(env, params):
    """Per parameter that the atoms compare with numbers: the sample points
    (every constant, a point between / beside them; lengths from 0 upwards)
    that satisfy the assignment.  None = no value satisfies it (the
    assignment is infeasible)."""
    from fractions import Fraction
    by_name = {}
    for atom, val in env.items():
        c = _constraint(atom)
        if c and c[0] in params:
            by_name.setdefault(c[0], []).append((c[1], c[2], val))
    out = {}
    for name, cs in by_name.items():
        consts = sorted({c for _, c, _ in cs} |
                        ({Fraction(0)} if name in _LENGTHS else set()) |
                        ({Fraction(_COUNTS[name])} if name in _COUNTS
                         else set()))
        pts = set(consts) | {consts[0] - 1, consts[-1] + 1} | {
            (x + y) / 2 for x, y in zip(consts, consts[1:])}
        if name in _LENGTHS:
            pts = {v for v in pts if v >= 0}
        if name in _COUNTS:
            pts = {v for v in pts if v >= _COUNTS[name]
                   and v.denominator == 1}
        sat = [v for v in sorted(pts) if all(
            {'==': v == c, '>': v > c, '<': v < c}[op] == val
            for op, c, val in cs)]
        if not sat:
            return None
        out[name] = (sat, consts)
    return out


def _fixed(params, envs):
    """{symbol: Rat} for the parameters that have one known value on every
    assignment of the group (`x == c` selected, or `x > 0` refuted for a
    length x, ...)."""
    from ..poly import Rat
    out = None
    for env in envs:
        fx = {}
        for name, (sat, consts) in (_regions(env, params) or {}).items():
            if len(sat) == 1 and sat[0] in consts and name in _SYMBOL:
                fx[_SYMBOL[name]] = Rat.const(sat[0])
        out = fx if out is None else {
            k: v for k, v in out.items() if k in fx and fx[k].equals(v)}
    return out or {}


def _tag(atoms, envs):
    """Atoms with one value over the whole group of assignments that give
    the same specialisation."""
    fixed = [(a, envs[0][a]) for a in atoms
             if all(e[a] == envs[0][a] for e in envs)]
    if not fixed:
        fixed_all = ['(' + ', '.join('%s is %s' % (a, e[a]) for a in atoms)
                     + ')' for e in envs]
        return ' or '.join(fixed_all[:4]) + (' or ...' if len(envs) > 4
                                             else '')
    return ', '.join('%s is %s' % (a, v) for a, v in fixed)


_SYNTHETIC = """
def calculate_geometry(n_ring, P, D, Pw, Dw, dftf, n_sc, se2=False):
    legacy = se2
    h = 0.5 * D + Dw if legacy else P
    if not legacy and Dw != 0.0:
        a = h
    else:
        a = 2 * h
    n_duct = len(dftf)
    for i in range(n_duct):
        if i > 0:
            b = a
    if n_duct - 1 > 0:
        c = b
    a = a + 1
    return a
"""


def _self_check(fi):
    """The path machinery on a synthetic function (parsed like the
    repository): two value tests over the atoms `se2` (through an alias) and
    `Dw == 0.0` (spelled !=), two extent tests left alone, three distinct
    specialisations, the re-bound local versioned."""
    fn = ast.parse(_SYNTHETIC).body[0]
    set_parents(fn)
    tests, atoms = value_tests(fn)
    sfi = FuncInfo(fi.mod, fn)
    dumps = set()
    for vals in itertools.product((True, False), repeat=len(atoms)):
        s, _ = specialise(sfi, tests, dict(zip(atoms, vals)))
        dumps.add(_s(s.node))
    one = specialise(sfi, tests, {a: a == 'se2' for a in atoms})[0] \
        if set(atoms) == {'se2', '0.0 == Dw'} else None
    text = _s(one.node) if one else ''
    if len(tests) != 2 or sorted(atoms) != ['0.0 == Dw', 'se2'] or \
            len(dumps) != 3 or 'h = 0.5 * D + Dw' not in text or \
            'a = 2 * h' not in text or 'a__v2 = a + 1' not in text or \
            'return a__v2' not in text or 'if i > 0' not in text or \
            'if n_duct - 1 > 0' not in text or 'legacy else' in text:
        raise AnalysisError(
            'C08.R9 self-check: the path specialisation of the synthetic '
            'example changed (tests %d, atoms %s, %d specialisations)'
            % (len(tests), atoms, len(dumps)))


def run(ctx):
    from . import _hexgeom, c08
    ctx.decided.append(
        'R9 (path-sensitive hexagon algebra) the identities of R4 -- corner '
        'length closed form, duct and bypass annulus tiling, coolant cells + '
        'pins + wires = inner hexagon -- hold for the formulae selected '
        'together on every consistent truth assignment of the value tests '
        'of calculate_geometry (SE2 geometry flag on/off, wire / no wire): '
        'each assignment yields a path specialisation of the function on '
        'which the exact algebra is re-run; tests on array extents and loop '
        'positions stay merged (they are covered by the symbolic index)')
    fi = ctx.repo.func('region_rodded', 'calculate_geometry')
    tests, atoms = value_tests(fi.node)
    _self_check(fi)
    if len(atoms) > MAX_ATOMS:
        raise AnalysisError(
            'calculate_geometry: %d independent branch conditions (%s); the '
            'path enumeration is capped at 2^%d'
            % (len(atoms), '; '.join(atoms), MAX_ATOMS))
    counts = c08.r3(_Silent(ctx.repo))
    groups = {}
    order = []
    keep = []
    n_rej = 0
    n_inf = 0
    for vals in itertools.product((True, False), repeat=len(atoms)):
        env = dict(zip(atoms, vals))
        if _regions(env, fi.params) is None:
            n_inf += 1          # e.g. Dw == 0.0 together with Dw > 0
            continue
        sfi, selected = specialise(fi, tests, env)
        if sfi is None:
            n_rej += 1
            continue
        keep.append(sfi)
        k = ast.dump(sfi.node)
        if k not in groups:
            groups[k] = (sfi, selected, [])
            order.append(k)
        groups[k][2].append(env)
    if not order:
        raise AnalysisError('calculate_geometry: every path rejects')
    per_path = []
    judged = []
    for k in order:
        sfi, selected, envs = groups[k]
        tag = _tag(atoms, envs)
        pc = _PathCtx(ctx, fi, sfi, tag, selected)
        fixed = _fixed(fi.params, envs)
        _hexgeom.check(pc, RULE, counts, fixed)
        per_path.append({'path': tag, 'assignments': len(envs),
                         'obligations': pc.n, 'holds': pc.holds,
                         'with': {k: repr(v.n) for k, v in fixed.items()}})
        if pc.n < 9:
            raise AnalysisError(
                'calculate_geometry, path [%s]: only %d of the 9 identities '
                'of R4 were evaluated' % (tag, pc.n))
        judged.append(pc)
    passing = {_s(st) for pc in judged if pc.holds for st in pc.selected}
    for pc in judged:
        pc.emit(passing, tests)
    ctx.extra['C08.R9_paths'] = {
        'atoms': atoms, 'value_tests': len(tests),
        'rejecting_assignments': n_rej, 'infeasible_assignments': n_inf,
        'specialisations': per_path}
    # confirmed by reading: two atoms (se2, Dw == 0.0), one value test, two
    # distinct specialisations (wire angle zero / from the wire pitch) with
    # the 9 obligations of R4 each.  The number of value tests may
    # legitimately change (a function without any is its own only path), so
    # the floor is one path; that the path machinery is not blind is
    # established by _self_check on every run.
    ctx.min_instances(RULE, 9)
