"""Typestate of the coolant Material a RoddedRegion shares between its bundle
interior and its bypass gaps.

The region owns ONE Material (`self.coolant`); `self._update_coolant(T)` /
`self.coolant.update(T)` put it at temperature T.  Interior step, pressure
drop and stability code read `self.coolant.<property>` directly and expect
the interior state.  Abstract states: INT (at the interior average), BYP (at
a bypass average), OTHER, plus SAME / P<k> / PE<k> inside method summaries
(unchanged / set from parameter k / from an element of parameter k).

Forward dataflow over the statement CFG, method summaries by recursion over
self-calls (resolved in the class and its bases).  No repository code runs.
"""
import ast

from ..core import AnalysisError, call_name, src
from ..cfg import cfg_of

INT, BYP, OTHER, SAME = 'INT', 'BYP', 'OTHER', 'SAME'
SETTERS = ('self._update_coolant', 'self.coolant.update')


def _classify(arg, params):
    t = src(arg)
    if t == 'self.avg_coolant_int_temp':
        return INT
    if 'avg_coolant_byp_temp' in t:
        return BYP
    if isinstance(arg, ast.Name) and arg.id in params:
        return 'P%d' % params.index(arg.id)
    if isinstance(arg, ast.Subscript) and isinstance(arg.value, ast.Name) \
            and arg.value.id in params:
        return 'PE%d' % params.index(arg.value.id)
    if isinstance(arg, ast.Name):
        return 'L:' + arg.id          # a local: resolved by the caller below
    return OTHER


class Analyser:
    def __init__(self, repo, modname, clsname):
        self.repo = repo
        self.mod = repo.mod(modname)
        self.cls = clsname
        self.memo = {}
        self.trace = {}

    def method(self, name):
        """Resolve self.<name> in the class, then in its bases (by name in
        the package)."""
        seen = set()
        todo = [(self.mod, self.cls)]
        while todo:
            m, c = todo.pop(0)
            if (m.name, c) in seen:
                continue
            seen.add((m.name, c))
            fi = m.funcs.get('%s.%s' % (c, name))
            if fi is not None:
                return fi
            cn = m.classes.get(c) if hasattr(m, 'classes') else None
            bases = []
            if cn is not None:
                node = cn if isinstance(cn, ast.ClassDef) else getattr(
                    cn, 'node', None)
                if node is not None:
                    bases = [src(b).split('.')[-1] for b in node.bases]
            for b in bases:
                for m2 in self.repo.modules.values():
                    if '%s.%s' % (b, name) in m2.funcs or (
                            hasattr(m2, 'classes') and b in m2.classes):
                        todo.append((m2, b))
        return None

    # -- transfer ----------------------------------------------------------
    def _calls_in_order(self, parts):
        calls = []
        for p in parts:
            calls += [x for x in ast.walk(p) if isinstance(x, ast.Call)]
        # inner calls are evaluated before the call that takes them as args
        calls.sort(key=lambda c: (c.end_lineno, c.end_col_offset))
        return calls

    def _local_def(self, fi, name):
        """Text class of a local bound once from an attribute expression."""
        defs = [n for n in ast.walk(fi.node) if isinstance(n, ast.Assign)
                and len(n.targets) == 1 and isinstance(
                    n.targets[0], ast.Name) and n.targets[0].id == name]
        if len(defs) == 1:
            return _classify(defs[0].value, [])
        return OTHER

    def apply_call(self, fi, call, states, depth):
        cn = call_name(call) or ''
        params = fi.params[1:] if fi.params[:1] == ['self'] else fi.params
        if cn in SETTERS and call.args:
            c = _classify(call.args[0], params)
            if c.startswith('L:'):
                c = self._local_def(fi, c[2:])
                if c.startswith('L:'):
                    c = OTHER
            if isinstance(call.args[0], ast.Subscript) and isinstance(
                    call.args[0].value, ast.Name) and c == OTHER:
                d = self._local_def(fi, call.args[0].value.id)
                if d in (INT, BYP):
                    c = d
            return {c}
        if cn.startswith('self.') and cn.count('.') == 1:
            callee = self.method(cn[5:])
            if callee is None or callee.is_property:
                return states
            eff = self.summary(callee, depth + 1)
            out = set()
            for e in eff:
                if e == SAME:
                    out |= states
                elif e[0] == 'P' and e[1:].lstrip('E').isdigit():
                    k = int(e.lstrip('PE'))
                    cp = callee.params[1:] if callee.params[:1] == ['self'] \
                        else callee.params
                    actual = None
                    if k < len(call.args):
                        actual = call.args[k]
                    else:
                        for kw in call.keywords:
                            if k < len(cp) and kw.arg == cp[k]:
                                actual = kw.value
                    c = OTHER if actual is None else _classify(actual, params)
                    if c.startswith('L:'):
                        c = self._local_def(fi, c[2:])
                    if c.startswith('L:'):
                        c = OTHER
                    if c[0] == 'P' and e.startswith('PE') and \
                            not c.startswith('PE'):
                        c = 'PE' + c[1:]
                    out.add(c)
                else:
                    out.add(e)
            return out
        return states

    def flow(self, fi, entry, depth=0, observe=None):
        """States at every CFG node (before the node) and at exit."""
        g = cfg_of(fi)
        before = {n.id: set() for n in g.nodes}
        before[g.entry.id] = set(entry)
        work = [g.entry]
        guard = 0
        while work:
            guard += 1
            if guard > 20000:
                raise AnalysisError('%s: coolant-state dataflow does not '
                                    'converge' % fi.full)
            n = work.pop()
            st = set(before[n.id])
            if n.kind not in ('entry', 'exit', 'abort'):
                for c in self._calls_in_order(g.header_parts(n)):
                    if observe is not None:
                        observe(n, c, set(st))
                    st = self.apply_call(fi, c, st, depth)
            for s in n.succ:
                if not st <= before[s.id]:
                    before[s.id] |= st
                    work.append(s)
        return g, before

    def summary(self, fi, depth=0):
        if fi.full in self.memo:
            return self.memo[fi.full]
        if depth > 6:
            return {OTHER}
        self.memo[fi.full] = {SAME}          # recursion guard
        g, before = self.flow(fi, {SAME}, depth)
        out = set(before[g.exit.id]) or {SAME}
        self.memo[fi.full] = out
        return out

    def reads_at_same(self, fi):
        """Does the method read self.coolant.<prop> while its own effect is
        still SAME (i.e. it relies on the caller's state)?"""
        g, before = self.flow(fi, {SAME})
        for n in g.nodes:
            if n.kind in ('entry', 'exit', 'abort'):
                continue
            if SAME not in before[n.id]:
                continue
            for p in g.header_parts(n):
                for x in ast.walk(p):
                    if isinstance(x, ast.Attribute) and isinstance(
                            x.value, ast.Attribute) and \
                            src(x.value) == 'self.coolant' and x.attr in (
                                'heat_capacity', 'density', 'viscosity',
                                'thermal_conductivity'):
                        # a read in the same statement as (after) a setter
                        # call does not count
                        return x
        return None


def check(ctx, rule):
    repo = ctx.repo
    an = Analyser(repo, 'region_rodded', 'RoddedRegion')
    n_inst = 0
    for meth, entry in (('calculate', {INT}), ('activate', {OTHER})):
        fi = repo.func('region_rodded', 'RoddedRegion.' + meth)
        seen = []

        def observe(node, call, st, fi=fi, seen=seen):
            cn = call_name(call) or ''
            if cn.startswith('self.') and cn.count('.') == 1:
                callee = an.method(cn[5:])
                if callee is not None and not callee.is_property and \
                        an.reads_at_same(callee) is not None:
                    seen.append((cn, call, st))
        g, before = an.flow(fi, entry, observe=observe)
        ex = before[g.exit.id]
        bad = sorted(ex - {INT})
        # the last state-changing call on an offending path, for the report
        anchor = fi.node
        for n in g.nodes:
            if n.kind in ('entry', 'exit', 'abort'):
                continue
            for c in an._calls_in_order(g.header_parts(n)):
                if an.apply_call(fi, c, {'?'}, 0) - {'?', INT}:
                    anchor = c
        ctx.require(not bad, rule, fi, anchor if bad else fi.node,
                    'the coolant Material shared by bundle interior and '
                    'bypass is left in state %s at the end of %s() on some '
                    'path; the next interior step, the pressure drop and the '
                    'step criteria read self.coolant.<property> expecting '
                    'the interior temperature (the resulting energy-balance '
                    'error does not shrink with the step)' % (bad, meth),
                    key='%s | shared coolant state at exit' % fi.full)
        n_inst += 1
        for cn, call, st in seen:
            if meth == 'activate':
                continue
            ctx.require(st <= {INT}, rule, fi, call,
                        '%s() reads self.coolant.<property> but is reached '
                        'with the shared coolant in state %s'
                        % (cn, sorted(st)),
                        key='%s | %s entry state' % (fi.full, cn))
            n_inst += 1
    # the interior parameter update starts by putting the coolant at its
    # argument; the bypass update sets it per bypass gap
    ip = an.summary(repo.func('region_rodded',
                              'RoddedRegion._update_coolant_int_params'))
    bp = an.summary(repo.func('region_rodded',
                              'RoddedRegion._update_coolant_byp_params'))
    if ip != {'P0'} or not any(e.startswith('PE') for e in bp):
        raise AnalysisError('coolant-state summaries changed: int %s byp %s'
                            % (sorted(ip), sorted(bp)))
    ctx.extra.setdefault('coolant_state_summaries', {}).update(
        {k.split(':')[-1]: sorted(v) for k, v in an.memo.items()
         if v != {SAME}})
    if n_inst < 3:
        raise AnalysisError('coolant typestate: only %d instances' % n_inst)
