"""C20 -- orifice grouping partitions; flow distribution conserves flow."""
import ast

from ..core import (AnalysisError, access_path, const, find_all, match, short,
                    src, walk_no_nested, parent, call_name)
from ..cfg import cfg_of
from .. import util as U
from .. import dataflow

N = "self.orifice_input['n_groups']"


def run(ctx):
    ctx.decided += [
        'R1 grouping sweeps the parameters sorted in descending order, '
        'appends every parameter exactly once, opens a new group before the '
        'append, and numbers groups by run lengths (contiguous runs)',
        'R2 every while loop of the optimiser is bounded by a counter that is '
        'incremented on every path; the post-loop guard of _group rejects '
        'every exit state in which the group count differs from the request '
        '(enumeration of the abstract exit states)',
        'R3 in distribute the mass-conservation and group-count guards lie on '
        'every path from the loop to the return; the remainder goes to the '
        'last group; every store into the flow vector is masked by a group '
        'and assigns a group-uniform value',
        'R4 when a pressure-drop limit is set, every store into the flow '
        'vector (per-group and remainder) is compared with the group limit '
        'before the return, clamping it or ending in an error',
        'R5 the per-iteration summary that feeds the next distribution reads '
        'whole result sets: no loop variable of the orificing module is read '
        'after its loop has ended (a stale per-timestep / per-group value '
        'standing in for the collection)',
        'R6 the distributed flows reach the assemblies they were computed '
        'for: every store into the Assignment of the next input is indexed '
        'by the assembly-id column of the row the value was taken from '
        '(group_data[., 0] / _ng_power[., 0]), never by the row number']
    ctx.not_decided += ['partition / ordering / sum as numbers', 'convergence '
                        'of the fixed-point iteration']
    r1(ctx)
    r2(ctx)
    r3(ctx)
    r4(ctx)
    r5(ctx)
    ctx.min_instances('C20.R5', 10)
    r6(ctx)
    ctx.min_instances('C20.R6', 2)
    from . import _rowtear
    _rowtear.check(ctx, 'C20.R7', ('orificing',))
    ctx.decided.append(
        'R7 record tables (assembly id, type, ...) are never sorted column '
        'by column (np.sort(..., axis=0)); rows move as a whole')
    ctx.min_instances('C20.R1', 5)
    ctx.min_instances('C20.R2', 4)
    ctx.min_instances('C20.R3', 6)
    ctx.min_instances('C20.R4', 2)


def _grp(ctx):
    return ctx.repo.func('orificing', 'Orificing._group')


def r1(ctx):
    fi = _grp(ctx)
    pname = fi.params[1]
    # sorted descending before any other use
    defs = U.assigns_of(fi.node, pname)
    ok = len(defs) == 1 and isinstance(defs[0], ast.Assign) and \
        src(defs[0].value) == '%s[%s[:, 1].argsort()][::-1]' % (pname, pname)
    first_use = min([n.lineno for n in ast.walk(fi.node)
                     if isinstance(n, ast.Name) and n.id == pname
                     and isinstance(n.ctx, ast.Load)] or [0])
    ok = ok and defs[0].lineno <= first_use and not U.guards(defs[0])
    ctx.require(ok, 'C20.R1', fi, defs[0] if defs else fi.node,
                'the parameters must be sorted by value in descending order '
                'before the sweep', key=fi.full + ' | sorted descending')
    loops = [n for n in walk_no_nested(fi.node) if isinstance(n, ast.For)
             and src(n.iter) == 'range(1, %s.shape[0])' % pname]
    if len(loops) != 1:
        raise AnalysisError('_group: sweep loop over range(1, n) not found')
    lp = loops[0]
    i = src(lp.target)
    # seed = first parameter
    seed = [a for a in U.assigns_of(fi.node, 'grp_param')
            if isinstance(a, ast.Assign)]
    ok = len(seed) == 1 and src(seed[0].value) == '[[%s[0, 1]]]' % pname and \
        seed[0].lineno < lp.lineno
    ctx.require(ok, 'C20.R1', fi, seed[0] if seed else lp,
                'the first (largest) parameter must seed group 0',
                key=fi.full + ' | seed')
    # exactly one unconditional append of params[i, 1] into grp_param[g]
    apps = find_all('grp_param[g].append(%s[%s, 1])' % (pname, i), lp)
    ok = len(apps) == 1 and not U.guards(apps[0][0], stop=lp)
    ctx.require(ok, 'C20.R1', fi, apps[0][0] if apps else lp,
                'every parameter must be appended exactly once, '
                'unconditionally', key=fi.full + ' | append once')
    # new group opened before the append, under the check
    opens = find_all('grp_param.append([])', lp)
    incs = [st for st in walk_no_nested(lp) if isinstance(st, ast.AugAssign)
            and src(st.target) == 'g' and const(st.value) == 1
            and isinstance(st.op, ast.Add)]
    ok = len(opens) == 1 and len(incs) == 1 and apps and \
        opens[0][0].lineno < apps[0][0].lineno and \
        [src(t) for t, p in U.guards(opens[0][0], stop=lp)] == \
        [src(t) for t, p in U.guards(incs[0], stop=lp)]
    if ok:
        t = U.guards(opens[0][0], stop=lp)
        ok = len(t) == 1 and t[0][1] and '_check_new_group(grp_param[g]' in \
            src(t[0][0]).replace('self.', '')
    ctx.require(ok, 'C20.R1', fi, opens[0][0] if opens else lp,
                'a new group must be opened (g += 1 and a new list) together, '
                'before the append, when _check_new_group says so',
                key=fi.full + ' | open group')
    g0 = [a for a in U.assigns_of(fi.node, 'g') if isinstance(a, ast.Assign)]
    ctx.require(len(g0) == 1 and const(g0[0].value) == 0 and
                g0[0].lineno < lp.lineno, 'C20.R1', fi,
                g0[0] if g0 else lp, 'group index restarts at 0 per sweep',
                key=fi.full + ' | g reset')
    # ids from run lengths
    h = find_all('group_data[:, 2] = [i for i in range(len(grp_param)) for j '
                 'in range(len(grp_param[i]))]', fi.node, 'stmt')
    if not h:
        # run-length form: ids += [g] * len(group) for g, group in order
        st_ = [x for t, x in U.stores(fi.node)
               if src(t) == 'group_data[:, 2]' and isinstance(x, ast.Assign)
               and isinstance(x.value, ast.Name)]
        if len(st_) == 1:
            nm = st_[0].value.id
            init = [a for a in U.assigns_of(fi.node, nm)
                    if isinstance(a, ast.Assign) and src(a.value) == '[]']
            accs = [a for a in U.assigns_of(fi.node, nm)
                    if isinstance(a, ast.AugAssign)]
            okf = len(init) == 1 and len(accs) == 1 and \
                init[0].lineno < accs[0].lineno < st_[0].lineno
            if okf:
                lps = [l for l in U.enclosing_loops(accs[0])
                       if isinstance(l, ast.For)]
                okf = len(lps) == 1 and not U.guards(accs[0], stop=lps[0])
            if okf:
                lp_ = lps[0]
                if match('range(len(grp_param))', lp_.iter) is not None \
                        and isinstance(lp_.target, ast.Name):
                    gi = lp_.target.id
                    okf = src(accs[0].value) in (
                        '[%s] * len(grp_param[%s])' % (gi, gi),
                        'len(grp_param[%s]) * [%s]' % (gi, gi))
                elif match('enumerate(grp_param)', lp_.iter) is not None \
                        and isinstance(lp_.target, ast.Tuple) and \
                        len(lp_.target.elts) == 2 and all(
                            isinstance(e, ast.Name)
                            for e in lp_.target.elts):
                    gi, mem = (e.id for e in lp_.target.elts)
                    okf = src(accs[0].value) in (
                        '[%s] * len(%s)' % (gi, mem),
                        'len(%s) * [%s]' % (mem, gi))
                else:
                    okf = False
            if okf:
                h = [(st_[0], {})]
    h2 = find_all('group_data[:, :2] = %s' % pname, fi.node, 'stmt')
    ctx.require(len(h) == 1 and len(h2) == 1, 'C20.R1', fi,
                h[0][0] if h else fi.node, 'group ids must be generated from '
                'the group lengths in order and attached to the sorted '
                'parameters', key=fi.full + ' | ids from lengths')
    # _check_new_group: spread / mean > cutoff
    cg = ctx.repo.func('orificing', 'Orificing._check_new_group')
    rets = [n for n in walk_no_nested(cg.node) if isinstance(n, ast.Return)]
    ok = len(rets) == 2 and {const(r.value) for r in rets} == {True, False}
    tr = [r for r in rets if const(r.value) is True]
    if ok:
        gs = U.guards(tr[0])
        ok = len(gs) == 1 and gs[0][1] and U.compare_parts(gs[0][0]) and \
            U.compare_parts(gs[0][0])[1] in (ast.Gt, ast.GtE)
    ctx.require(ok, 'C20.R1', cg, tr[0] if tr else cg.node,
                'a new group is opened when the relative spread exceeds the '
                'cut-off', key=cg.full + ' | spread test')


def bounded_while(ctx, rule, fi, w, what):
    """while ... and ctr < LIM: with ctr incremented on every path."""
    g = cfg_of(fi)
    conj = w.test.values if isinstance(w.test, ast.BoolOp) and isinstance(
        w.test.op, ast.And) else [w.test]
    ctr = lim = None
    for c in conj:
        cp = U.compare_parts(c)
        if cp and cp[1] in (ast.Lt, ast.LtE) and isinstance(cp[0], ast.Name):
            ctr, lim = cp[0].id, cp[2]
    if ctr is None:
        ctx.violation(rule, fi, w.test, 'loop has no iteration bound (%s)'
                      % what, key='%s | bound %s' % (fi.full, what))
        return None
    tn = g.node_of(w)
    incs = [g.node_of(st) for st in walk_no_nested(w)
            if isinstance(st, ast.AugAssign) and src(st.target) == ctr
            and isinstance(st.op, ast.Add) and
            isinstance(const(st.value), (int, float)) and const(st.value) > 0]
    body_first = [s for s in tn.succ if dataflow._in_body(s, w)]
    ok = bool(incs) and all(
        (b in incs) or not g.path_exists(b, tn, avoid=incs)
        for b in body_first)
    # the counter is not reset inside the loop
    resets = [st for st in walk_no_nested(w) if isinstance(st, ast.Assign)
              and any(src(t) == ctr for t in st.targets)]
    # and the limit is a constant / a name with constant definition
    limv = const(lim)
    if limv is None and isinstance(lim, ast.Name):
        d = U.single_def(fi.node, lim.id)
        limv = const(d) if d is not None else None
    ctx.require(ok and not resets and isinstance(limv, (int, float)), rule,
                fi, w.test, 'loop counter %r must be incremented on every '
                'path through the body, never reset, and compared with a '
                'constant limit (%s)' % (ctr, what),
                key='%s | bounded %s' % (fi.full, what))
    return ctr, limv


def r2(ctx):
    fi = _grp(ctx)
    ws = [n for n in walk_no_nested(fi.node) if isinstance(n, ast.While)]
    if len(ws) != 1:
        raise AnalysisError('_group: expected one while loop')
    w = ws[0]
    b = bounded_while(ctx, 'C20.R2', fi, w, 'grouping sweep')
    # abstract exit states: the loop leaves when its test is false
    if b:
        ctr, lim = b
        g = cfg_of(fi)
        tn = g.node_of(w)
        after = [n for n in walk_no_nested(fi.node) if isinstance(n, ast.If)
                 and n.lineno > w.end_lineno and
                 any(isinstance(x, ast.Call) and call_name(x) == 'self.log'
                     and x.args and const(x.args[0]) == 'error'
                     for x in ast.walk(n))]
        Nv = 5
        bad = []
        n_states = 0
        for ng in (Nv - 2, Nv - 1, Nv, Nv + 1, Nv + 2):
            for it in (1, lim - 1, lim, lim + 1):
                env = {N: Nv, 'n_grp': ng, ctr: it}
                if U.eval_test(w.test, env) is not False:
                    continue          # not an exit state
                n_states += 1
                if ng == Nv:
                    continue          # success
                rejected = any(U.eval_test(i.test, env) is True
                               for i in after)
                if not rejected:
                    bad.append((ng - Nv, it))
        ctx.extra['group_exit_states_enumerated'] = n_states
        ctx.require(not bad and after, 'C20.R2', fi,
                    after[0].test if after else w,
                    '_group can leave its loop at the iteration limit with a '
                    'group count different from the request without raising '
                    'the "not converged" error: exit states (n_grp - '
                    'n_groups, iter) = %s pass the post-loop guard, so fewer/'
                    'more groups than requested are returned silently' % bad,
                    key=fi.full + ' | post-loop guard rejects wrong count')
        # guard lies on every path from the loop to the return
        if after:
            an = g.node_of(after[0])
            ctx.require(g.must_pass(tn, [an]) or g.dominates(an, g.exit),
                        'C20.R2', fi, after[0].test,
                        'the convergence guard must be on every path to the '
                        'return', key=fi.full + ' | guard on all paths')
    di = ctx.repo.func('orificing', 'Orificing.distribute')
    ws = [n for n in walk_no_nested(di.node) if isinstance(n, ast.While)]
    if len(ws) != 1:
        raise AnalysisError('distribute: expected one while loop')
    bounded_while(ctx, 'C20.R2', di, ws[0], 'flow redistribution')


def r3(ctx):
    di = ctx.repo.func('orificing', 'Orificing.distribute')
    g = cfg_of(di)
    w = [n for n in walk_no_nested(di.node) if isinstance(n, ast.While)][0]
    tn = g.node_of(w)
    rets = [n for n in g.nodes if n.kind == 'stmt'
            and isinstance(n.stmt, ast.Return)]
    # error guards after the loop
    def guard_with(text):
        out = []
        for n in g.nodes:
            if n.kind == 'test' and isinstance(n.stmt, ast.If) and \
                    n.stmt.lineno > w.end_lineno and text in src(n.expr):
                errs = [x for x in ast.walk(n.stmt) if isinstance(x, ast.Call)
                        and call_name(x) == 'self.log' and x.args
                        and const(x.args[0]) == 'error']
                if errs:
                    out.append(n)
        return out
    mc = guard_with('np.sum(m) - m_total')
    ok = len(mc) == 1 and all(g.dominates(mc[0], r) for r in rets) and \
        g.must_pass(tn, mc)
    if ok:
        # rejects both signs: abs()
        ok = 'abs(np.sum(m) - m_total)' in src(mc[0].expr)
        v = U.eval_test(mc[0].expr, {'abs(np.sum(m) - m_total)': 1.0})
        ok = ok and v is True
    ctx.require(ok, 'C20.R3', di, mc[0].expr if mc else di.node,
                'the mass-conservation guard (|sum(m) - m_total| vs '
                'tolerance -> error) must dominate the return',
                key=di.full + ' | mass guard')
    gc = guard_with('np.unique(m).shape[0]')
    ok = len(gc) == 1 and all(g.dominates(gc[0], r) for r in rets)
    if ok:
        ok = U.eval_test(gc[0].expr, {'np.unique(m).shape[0]': 3, N: 4}) \
            is True and U.eval_test(
                gc[0].expr, {'np.unique(m).shape[0]': 4, N: 4}) is False
    ctx.require(ok, 'C20.R3', di, gc[0].expr if gc else di.node,
                'the group-count guard must dominate the return',
                key=di.full + ' | group-count guard')
    # remainder logic
    mr = [a for a in U.assigns_of(w, 'm_remaining')]
    init = [a for a in mr if isinstance(a, ast.Assign)]
    dec = [a for a in mr if isinstance(a, ast.AugAssign)]
    ok = len(init) == 1 and src(init[0].value) == 'm_total' and \
        len(dec) == 1 and isinstance(dec[0].op, ast.Sub) and \
        src(dec[0].value) == 'np.sum(m_new)'
    ctx.require(ok, 'C20.R3', di, dec[0] if dec else w,
                'the remaining flow starts from m_total and is reduced by '
                'every non-last group\'s total',
                key=di.full + ' | remainder bookkeeping')
    floops = [n for n in walk_no_nested(w) if isinstance(n, ast.For)
              and src(n.iter) == 'range(%s - 1)' % N]
    ok = len(floops) == 1 and dec and any(dec[0] is s for s in
                                          floops[0].body)
    ctx.require(ok, 'C20.R3', di, floops[0] if floops else w,
                'the per-group loop runs over all groups but the last and '
                'decrements the remainder unconditionally',
                key=di.full + ' | non-last groups')
    # stores into m inside the while loop
    sts = [(t, st) for t, st in U.stores(w) if isinstance(t, ast.Subscript)
           and src(t.value) == 'm']
    ctx.extra['m_store_sites'] = [short(st) for t, st in sts]
    for t, st in sts:
        idx = U.expand_locals(di.node, t.slice, before=st.lineno)
        b = match('self.group_data[:, -1] == Q_g', idx)
        ctx.require(b is not None, 'C20.R3', di, st,
                    'every store into the flow vector must be masked by a '
                    'group id', key='%s | masked store %s' % (di.full,
                                                              src(t)))
    last = [st for t, st in sts if 'm_remaining' in src(st.value)]
    ok = len(last) == 1
    if ok:
        idx = U.expand_locals(di.node, last[0].targets[0].slice,
                              before=last[0].lineno)
        val = U.expand_locals(di.node, last[0].value, before=last[0].lineno,
                              keep=('m_remaining', 'm'))
        mask = 'self.group_data[:, -1] == %s - 1' % N
        ok = src(idx) == mask and ' '.join(src(val).split()) in (
            'm_remaining / np.count_nonzero(%s)' % mask,
            'm_remaining / np.sum(%s)' % mask,
            'm_remaining / (%s).sum()' % mask)
        ok = ok and not U.guards(last[0], stop=w) and \
            last[0].lineno > floops[0].end_lineno
    ctx.require(ok, 'C20.R3', di, last[0] if last else w,
                'the last group receives the remainder divided by its size, '
                'after all other groups were assigned',
                key=di.full + ' | last group gets remainder')


def _limit_selection(di, expr, mask, line):
    """None if every m_lim[...] read in `expr` (locals expanded) selects the
    per-type limit of *all* members chosen by `mask` (the selection the flows
    are stored with); else the reason."""
    e = U.expand_locals(di.node, expr, before=line, keep=('m', 'm_lim'))
    mask_e = ' '.join(src(U.expand_locals(
        di.node, ast.parse(mask, mode='eval').body, before=line,
        keep=('m', 'm_lim'))).split())
    reads = [n for n in ast.walk(e) if isinstance(n, ast.Subscript)
             and src(n.value) == 'm_lim']
    if not reads:
        return 'no read of m_lim in ' + src(e)[:80]
    for r in reads:
        sel = ' '.join(src(r.slice).split())
        if mask not in sel and mask_e not in sel:
            return 'm_lim is indexed by %s, which does not select with the ' \
                   'group mask %s' % (sel[:80], mask)
        for sub in ast.walk(r.slice):
            if isinstance(sub, ast.Subscript) and (
                    mask in src(sub.value) or mask_e in ' '.join(
                        src(sub.value).split())):
                try:
                    one = isinstance(U.const_eval(sub.slice), int)
                except ValueError:
                    one = False
                if one:
                    return 'only element %s of the group\'s members is ' \
                           'looked up (%s)' % (src(sub.slice), sel[:80])
    return None


def r4(ctx):
    di = ctx.repo.func('orificing', 'Orificing.distribute')
    g = cfg_of(di)
    w = [n for n in walk_no_nested(di.node) if isinstance(n, ast.While)][0]
    sts = [(t, st) for t, st in U.stores(w) if isinstance(t, ast.Subscript)
           and src(t.value) == 'm']
    n = 0
    for t, st in sts:
        val = st.value
        n += 1
        # (a) the stored name was clamped under `m_lim is not None` before
        ok = False
        if isinstance(val, ast.Name):
            for cl in walk_no_nested(w):
                if isinstance(cl, ast.If) and cl.lineno < st.lineno and \
                        src(cl.test) == 'm_lim is not None':
                    cmp_ = [c for c in ast.walk(cl) if isinstance(c,
                                                                  ast.Compare)
                            and val.id in src(c) and 'm_lim' in src(c)]
                    clamp = [s for s in ast.walk(cl) if isinstance(
                        s, ast.Assign) and src(s.targets[0]).startswith(
                            val.id) and 'm_lim' in src(s.value)]
                    if cmp_ and clamp:
                        ok = True
                        mask = ' '.join(src(t.slice).split())
                        for c in cmp_:
                            why = _limit_selection(di, c, mask, st.lineno)
                            ctx.require(
                                why is None, 'C20.R4', di, c,
                                'the limit compared with a group\'s flows '
                                'must be the limit of every member of that '
                                'group: %s' % why, key='%s | limit selection '
                                '%s' % (di.full, src(t)))
                        for s_ in clamp:
                            v = s_.value
                            fn = call_name(v) if isinstance(v, ast.Call) \
                                else None
                            good = fn in ('np.min', 'min', 'np.amin',
                                          'np.minimum') or (
                                isinstance(v, ast.Call) and isinstance(
                                    v.func, ast.Attribute) and
                                v.func.attr == 'min')
                            ctx.require(
                                good, 'C20.R4', di, s_,
                                'a limited group is clamped to the smallest '
                                'limit of its members (min), got %s'
                                % src(v)[:60],
                                key='%s | clamp value' % di.full)
        # (b) or: a later comparison of the stored slice with the limit that
        # ends in an error, on every path to the return
        if not ok:
            tgt = src(t)
            for tn in g.nodes:
                if tn.kind == 'test' and isinstance(tn.stmt, ast.If) and \
                        tn.stmt.lineno > st.lineno:
                    txt = src(U.expand_locals(di.node, tn.expr,
                                              before=tn.stmt.lineno,
                                              keep=('m', 'm_lim')))
                    body_err = any(
                        isinstance(x, ast.Call) and call_name(x) == 'self.log'
                        and x.args and const(x.args[0]) == 'error'
                        for s_ in tn.stmt.body for x in ast.walk(s_))
                    if 'm_lim' in txt and (tgt in src(tn.expr) or tgt in txt)\
                            and body_err:
                        # guarded by m_lim is not None is fine
                        ok = True
                        mask = ' '.join(src(t.slice).split())
                        why = _limit_selection(di, tn.expr, mask,
                                               tn.stmt.lineno)
                        ctx.require(
                            why is None, 'C20.R4', di, tn.expr,
                            'the limit compared with a group\'s flows must '
                            'be the limit of every member of that group: %s'
                            % why, key='%s | limit selection %s'
                            % (di.full, src(t)))
        ctx.require(ok, 'C20.R4', di, st,
                    'with a pressure-drop limit set, the flow stored by this '
                    'statement is never compared with the group\'s limit '
                    '(m_lim): the group can be handed a flow above the limit '
                    'and distribute() returns normally',
                    key='%s | limit check %s' % (di.full, src(t)))
    if n < 2:
        raise AnalysisError('distribute: expected >= 2 stores into m')


# ---------------------------------------------------------------------------
# R5: no stale loop variable

STALE_POSITIVE = """
def summarize(res_all):
    tot = 0.0
    for res_t in res_all:
        tot += res_t[0]
    return tot / res_t[1]
"""


def _loads_outside_comprehensions(node, names):
    """Load-context Name nodes of `names` in an expression / statement,
    skipping comprehension scopes that rebind the name."""
    out = []

    def rec(n, hidden):
        if isinstance(n, (ast.ListComp, ast.SetComp, ast.GeneratorExp,
                          ast.DictComp)):
            h = set(hidden)
            for g in n.generators:
                rec(g.iter, h)
                h |= {x.id for x in ast.walk(g.target)
                      if isinstance(x, ast.Name)}
                for c in g.ifs:
                    rec(c, h)
            for f in ('elt', 'key', 'value'):
                if hasattr(n, f):
                    rec(getattr(n, f), h)
            return
        if isinstance(n, ast.Lambda):
            h = set(hidden) | {a.arg for a in n.args.args}
            rec(n.body, h)
            return
        if isinstance(n, ast.Name):
            if isinstance(n.ctx, ast.Load) and n.id in names and \
                    n.id not in hidden:
                out.append(n)
            return
        for ch in ast.iter_child_nodes(n):
            rec(ch, hidden)
    rec(node, set())
    return out


def _targets(t):
    return {x.id for x in ast.walk(t) if isinstance(x, ast.Name)}


def _scan(stmts, names, killed, out):
    """Walk statements in execution order; report loads of `names` that are
    not killed (re-bound) yet.  Returns the killed set after the block."""
    for st in stmts:
        live = names - killed
        if not live:
            return killed
        if isinstance(st, (ast.FunctionDef, ast.AsyncFunctionDef,
                           ast.ClassDef)):
            continue
        if isinstance(st, ast.For):
            out += _loads_outside_comprehensions(st.iter, live)
            k2 = killed | _targets(st.target)
            k2 = _scan(st.body, names, k2, out)
            _scan(st.orelse, names, k2, out)
            killed = k2
            continue
        if isinstance(st, ast.While):
            out += _loads_outside_comprehensions(st.test, live)
            killed = _scan(st.body, names, set(killed), out) | killed
            continue
        if isinstance(st, ast.If):
            out += _loads_outside_comprehensions(st.test, live)
            k1 = _scan(st.body, names, set(killed), out)
            k2 = _scan(st.orelse, names, set(killed), out)
            killed = k1 | k2
            continue
        if isinstance(st, (ast.With, ast.AsyncWith)):
            for it in st.items:
                out += _loads_outside_comprehensions(it.context_expr, live)
                if it.optional_vars is not None:
                    killed = killed | _targets(it.optional_vars)
            killed = _scan(st.body, names, killed, out)
            continue
        if isinstance(st, ast.Try):
            k = _scan(st.body, names, set(killed), out)
            for h in st.handlers:
                k |= _scan(h.body, names, set(killed), out)
            k = _scan(st.orelse, names, k, out)
            killed = _scan(st.finalbody, names, k, out)
            continue
        if isinstance(st, (ast.Assign, ast.AnnAssign, ast.AugAssign)):
            val = st.value
            if val is not None:
                out += _loads_outside_comprehensions(val, live)
            tg = st.targets if isinstance(st, ast.Assign) else [st.target]
            for t in tg:
                if isinstance(t, ast.Name):
                    if isinstance(st, ast.AugAssign) and t.id in live:
                        out.append(t)
                    killed = killed | {t.id}
                else:
                    out += _loads_outside_comprehensions(t, live)
                    killed = killed | {x.id for x in ast.walk(t)
                                       if isinstance(x, ast.Name)
                                       and isinstance(x.ctx, ast.Store)}
            continue
        out += _loads_outside_comprehensions(st, live)
    return killed


def _within(node, anc):
    p_ = node
    while p_ is not None:
        if p_ is anc:
            return True
        p_ = parent(p_)
    return False


def stale_loop_reads(fn_node, loop_locals=True):
    """[(loop, name node)] reads of a for-loop target after the loop has
    ended and before the name is bound again, in the statements that follow
    the loop in its own block."""
    res = []
    for lp in walk_no_nested(fn_node):
        if not isinstance(lp, ast.For):
            continue
        tg = _targets(lp.target)
        # names bound only inside this loop (loop-local values): after the
        # loop they hold what the last iteration left behind
        inside = {x.id for st in lp.body for x in ast.walk(st)
                  if isinstance(x, ast.Name) and isinstance(x.ctx, ast.Store)}
        outside = {x.id for x in ast.walk(fn_node)
                   if isinstance(x, ast.Name) and isinstance(x.ctx, ast.Store)
                   and not _within(x, lp)}
        a_ = fn_node.args
        params = {y.arg for y in a_.posonlyargs + a_.args + a_.kwonlyargs}
        if loop_locals:
            tg |= (inside - outside - params)
        blk = parent(lp)
        after = []
        for field in ('body', 'orelse', 'finalbody'):
            lst = getattr(blk, field, None)
            if isinstance(lst, list) and lp in lst:
                after = lst[lst.index(lp) + 1:]
        out = []
        _scan(after, tg, set(), out)
        seen = set()
        for x in out:
            if x.id not in seen:
                seen.add(x.id)
                res.append((lp, x))
    return res


def r5(ctx):
    from ..core import Module
    m = ctx.repo.mod('orificing')
    for fi in m.funcs.values():
        hits = stale_loop_reads(fi.node)
        for lp, x in hits:
            ctx.violation(
                'C20.R5', fi, x,
                'loop variable `%s` of the loop at line %d is read after the '
                'loop has ended: it holds only the last element (last '
                'timestep / group), not the collection the summary needs'
                % (x.id, lp.lineno),
                key='%s | stale loop variable %s' % (fi.full, x.id))
        if not hits:
            ctx.ok('C20.R5', fi, None, 'no loop variable read after its loop')
    pm = Module('dassh._positive', '<positive>', 'dassh/_positive.py',
                STALE_POSITIVE)
    if len(stale_loop_reads(pm.funcs['summarize'].node)) != 1:
        raise AnalysisError('C20.R5 positive example not detected: the rule '
                            'went blind')
    ctx.ok('C20.R5', 'synthetic positive example', None, 'detected')


# ---------------------------------------------------------------------------
# R6: flows are written to the position of their own assembly

def r6(ctx):
    fi = ctx.repo.func('orificing', 'Orificing._setup_input_orifice')
    n = 0
    for t, st in U.stores(fi.node):
        sub = None
        x = t
        while isinstance(x, ast.Subscript):
            if isinstance(x.value, ast.Subscript) and const(
                    x.value.slice) == 'ByPosition':
                sub = x
            x = x.value
        if sub is None or not isinstance(st, ast.Assign):
            continue
        n += 1
        idx = U.value_at(fi.node, sub.slice, st.lineno)
        txt = ' '.join(src(idx).split())
        lps = [l for l in U.enclosing_loops(st) if isinstance(l, ast.For)
               and isinstance(l.target, ast.Name)]
        row = lps[0].target.id if lps else None
        ok = row is not None and any(
            p_ in txt for p_ in (
                'self.group_data[:, 0].astype(int)[%s]' % row,
                'self.group_data[%s, 0]' % row,
                'self._ng_power[%s, 0]' % row))
        # the value comes from the same row
        vnames = {x_.id for x_ in ast.walk(st.value)
                  if isinstance(x_, ast.Name)}
        ctx.require(ok, 'C20.R6', fi, st,
                    'the flow is written to ByPosition[%s]: the position must '
                    'be the assembly id stored in column 0 of the row the '
                    'flow belongs to, not the row number (rows and ids differ '
                    'as soon as an ungrouped assembly sits at a lower '
                    'position)' % txt[:80],
                    key='%s | position index %d' % (fi.full, n))
    if n < 2:
        raise AnalysisError('_setup_input_orifice: stores into ByPosition')
