"""C17 -- results independent of the input unit system (DESIGN 4.17)."""
import ast
from fractions import Fraction

from ..core import (AnalysisError, access_path, const, find_all, match, short,
                    src, walk_no_nested, parent, call_name)
from ..cfg import cfg_of
from .. import util as U
from .. import schema as S
from .. import inputpaths as IP
from .. import dataflow

A = ('Assembly', '__many__')
AR = A + ('AxialRegion', '__many__')

# Frozen classification of every numeric schema key (reason after #)
LENGTH = {
    ('Setup', 'axial_mesh_size'), ('Setup', 'axial_plane'),
    ('Setup', 'conv_approx_dz_cutoff'), ('Setup', 'Dump', 'interval'),
    ('Setup', 'AssemblyTables', '__many__', 'axial_positions'),
    ('Core', 'length'), ('Core', 'assembly_pitch'),
    A + ('pin_pitch',), A + ('pin_diameter',), A + ('wire_pitch',),
    A + ('wire_diameter',), A + ('duct_ftf',), A + ('clad_thickness',),
    AR + ('z_lo',), AR + ('z_hi',), AR + ('hydraulic_diameter',),
    AR + ('epsilon',),          # absolute roughness: used as eps / de
    A + ('SpacerGrid', 'axial_positions'),
    A + ('FuelModel', 'gap_thickness'), A + ('PinModel', 'gap_thickness'),
}
FOLDED_LENGTH = {   # moved into gap_thickness and deleted before conversion
    A + ('FuelModel', 'fcgap_thickness'), A + ('PinModel', 'fcgap_thickness')}
TEMPERATURE = {('Core', 'coolant_inlet_temp'),
               ('Orificing', 'bulk_coolant_temp')}
# Assignment section is parsed by DASSH_Assignment, not the schema
ASSIGN_TEMP = ('Assignment', 'ByPosition', '*', '*', 'outlet_temp')
ASSIGN_DT = ('Assignment', 'ByPosition', '*', '*', 'delta_temp')
ASSIGN_MFR = ('Assignment', 'ByPosition', '*', '*', 'flowrate')
FIXED_SI = {  # by contract not subject to the unit system
    ('Power', 'total_power'): 'W',
    ('Orificing', 'pressure_drop_limit'): 'MPa; unit system has no pressure',
}
DIMENSIONLESS_OR_OTHER = {
    ('Setup', 'param_update_tol'), ('Setup', 'AssemblyTables', '__many__',
                                    'assemblies'),
    ('Power', 'user_power'), ('Power', 'power_scaling_factor'),
    ('Core', 'bypass_fraction'), ('Core', 'htc_params_duct'),
    A + ('htc_params_duct',), A + ('bypass_gap_flow_fraction',),
    A + ('bypass_gap_loss_coeff',), A + ('shape_factor',),
    AR + ('vf_coolant',), AR + ('magic_knob',), AR + ('htc_params',),
    AR + ('convection_factor',), A + ('SpacerGrid', 'corr_coeff'),
    A + ('SpacerGrid', 'loss_coeff'), A + ('SpacerGrid', 'solidity'),
    A + ('FuelModel', 'htc_params_clad'), A + ('FuelModel', 'r_frac'),
    A + ('FuelModel', 'pu_frac'), A + ('FuelModel', 'zr_frac'),
    A + ('FuelModel', 'porosity'), A + ('PinModel', 'htc_params_clad'),
    A + ('PinModel', 'pin_material'), A + ('PinModel', 'r_frac'),
    ('Orificing', 'assemblies_to_group'), ('Orificing', 'group_cutoff'),
    ('Orificing', 'group_cutoff_delta'), ('Orificing', 'convergence_tol'),
    ('Orificing', 'regroup_option_tol'),
    ('Orificing', 'regroup_improvement_tol'),
}


def _is_materials_or_arc(p):
    return p[0] == 'Materials' or p[:2] == ('Power', 'ARC')


def run(ctx):
    ctx.decided += [
        'R1 every length/temperature/mass-flow input path is converted by '
        'exactly one store P = conv(P) of the right kind',
        'R2 converters make no other store into the input',
        'R3 convert_units is called once, after all raw-value checks, each '
        'converter once under its unit-not-default guard',
        'R4 each converter pair of utils composes to the identity (exact '
        'rational affine maps); dispatchers return the member matching the '
        'branch; tables use the SI->user direction',
        'R5 every numeric schema key is classified (schema drift)',
        'R6 before convert_units runs, a raw (user-unit) length or '
        'temperature never leaves the reader (argument of a call into '
        'another module) and is never compared with a dimensional literal, '
        'unless it passes through a unit converter first',
        'R7 a container that a converter rewrites in place through a '
        'position index (Assignment/ByPosition/i/N) is a fresh object for '
        'every position: the value stored per position is a copy or a fresh '
        'literal, never a reference that is invariant in the loop that varies '
        'the position (one input line covering several positions would be '
        'converted once per position)',
        'R8 the default unit system is a supported unit system: the unit '
        'getters of utils raise when asked to convert a unit to itself, so '
        'every getter call in the reader and the output tables lies under a '
        'guard that excludes the default unit of *that* dimension (or inside '
        'try/except ValueError); a disjunction over two dimensions (mass or '
        'time) guards neither']
    ctx.not_decided += ['equality of meshes and temperatures across units']
    keys, sections = S.parse_template(ctx.repo.template_text)
    r5(ctx, keys)
    conv_paths = r1_r2(ctx, keys, sections)
    r3(ctx)
    r4(ctx)
    r6(ctx, keys, sections)
    r7(ctx)
    ctx.min_instances('C17.R7', 2)
    r8(ctx)
    ctx.min_instances('C17.R8', 8)
    r9(ctx)
    ctx.min_instances('C17.R9', 4)
    ctx.min_instances('C17.R6', 10)
    ctx.min_instances('C17.R1', 24)
    ctx.min_instances('C17.R3', 5)
    ctx.min_instances('C17.R4', 20)
    ctx.min_instances('C17.R5', 60)
    ctx.trusted.append('classification tables LENGTH/TEMPERATURE/FIXED_SI/'
                       'DIMENSIONLESS in dsa/rules/c17.py')


# ---------------------------------------------------------------------------

def r5(ctx, keys):
    classified = LENGTH | FOLDED_LENGTH | TEMPERATURE | set(FIXED_SI) | \
        DIMENSIONLESS_OR_OTHER
    for p, k in sorted(keys.items()):
        if k.typ not in ('float', 'float_list', 'force_list'):
            continue
        where = 'dassh/input_template.txt:%d' % k.lineno
        if _is_materials_or_arc(p):
            ctx.ok('C17.R5', where, None, '%s fixed-SI/file list' % IP.fmt(p))
            continue
        if p not in classified:
            raise AnalysisError(
                'schema key %s (%s) is not classified as length/temperature/'
                'dimensionless in dsa/rules/c17.py: the unit-coverage rule '
                'cannot decide it' % (IP.fmt(p), k.typ))
        ctx.ok('C17.R5', where, None, IP.fmt(p))
    for p in classified:
        if p not in keys:
            raise AnalysisError('classified schema key %s vanished from the '
                                'template' % IP.fmt(p))


# ---------------------------------------------------------------------------

def _canon(path, keys, sections):
    """Schema-canonical form of a resolved path ('*' -> '__many__' where the
    schema has a wildcard section; list indices dropped)."""
    kind, obj = IP.match_schema(path, keys, sections)
    if kind in ('key', 'list'):
        return obj.path
    return None


def _converter_info(ctx, fname, getter, to_unit):
    fi = ctx.repo.func('read_input', fname)
    # names bound to the conversion callable
    convs = {}
    for st in U.walk_no_nested(fi.node):
        if isinstance(st, ast.Assign) and isinstance(st.value, ast.Call) and \
                len(st.targets) == 1 and isinstance(st.targets[0], ast.Name):
            cn = call_name(st.value) or ''
            if cn.startswith('utils.get_') and cn.endswith('_conversion'):
                convs[st.targets[0].id] = st.value
        elif isinstance(st, ast.Assign) and isinstance(st.value, ast.IfExp) \
                and len(st.targets) == 1 and isinstance(st.targets[0],
                                                        ast.Name):
            # conv = <default callable> if <unit is default> else getter(..):
            # the name is bound to a converter on one arm (the kind /
            # direction checks of R1 and the guard check of R8 look at the
            # getter call itself)
            for arm in (st.value.body, st.value.orelse):
                cn = call_name(arm) if isinstance(arm, ast.Call) else ''
                if cn and cn.startswith('utils.get_') and \
                        cn.endswith('_conversion'):
                    convs.setdefault(st.targets[0].id, arm)
    return fi, convs


def _conv_application(fi, value, convnames):
    """If value is conv(X) / [conv(x) for x in X] / outer(inner(X)) return
    (X expr, [conv names applied]) else None."""
    v = U.expand_locals(fi.node, value, before=getattr(value, 'lineno', None),
                        keep=convnames)
    r = _conv_application_of(v, convnames)
    if r is None and getattr(value, 'lineno', None) is not None:
        # a local that is re-bound on the way (x = P; x = conv(x); P = x):
        # flow-sensitive straight-line expansion at the point of the store;
        # locals whose last definition is conditional / looped stay symbolic
        # and the store is then not recognised as a conversion
        v = U.value_at(fi.node, value, value.lineno, keep=convnames)
        r = _conv_application_of(v, convnames)
    return r


def _conv_application_of(v, convnames):
    # list comprehension
    if isinstance(v, ast.ListComp) and len(v.generators) == 1 and \
            not v.generators[0].ifs:
        g = v.generators[0]
        inner = _conv_application_elt(v.elt, convnames)
        if inner and src(inner[0]) == src(g.target):
            return g.iter, inner[1]
        return None
    return _conv_application_elt(v, convnames)


def _conv_application_elt(v, convnames):
    applied = []
    while isinstance(v, ast.Call) and isinstance(v.func, ast.Name) and \
            v.func.id in convnames and len(v.args) == 1 and not v.keywords:
        applied.append(v.func.id)
        v = v.args[0]
    if applied:
        return v, applied
    return None


def r1_r2(ctx, keys, sections):
    repo = ctx.repo
    roots = {'data'}
    want = {
        'convert_length': ('utils.get_length_conversion', LENGTH, 'm'),
        'convert_temperature': ('utils.get_temperature_conversion',
                                TEMPERATURE, 'k'),
    }
    converted = {}    # canonical path -> [(fi, stmt)]
    for fname in ('convert_length', 'convert_temperature',
                  'convert_mass_flow_rate'):
        fi, convs = _converter_info(ctx, fname, None, None)
        if not convs:
            raise AnalysisError('%s obtains no utils.get_*_conversion' % fname)
        # the conversion callables are of the right kind and direction
        for nm, call in convs.items():
            cn = call_name(call)
            if fname == 'convert_length':
                ok = cn == 'utils.get_length_conversion' and \
                    src(call.args[0]) == 'input_unit' and \
                    const(call.args[1]) == 'm'
            elif fname == 'convert_temperature':
                ok = cn == 'utils.get_temperature_conversion' and \
                    src(call.args[0]) == 'input_unit' and \
                    str(const(call.args[1])).lower() == 'k'
            else:
                ok = (cn == 'utils.get_mass_conversion' and
                      src(call.args[0]) == 'm_unit' and
                      const(call.args[1]) == 'kg') or \
                     (cn == 'utils.get_time_conversion' and
                      const(call.args[0]) == 's' and
                      src(call.args[1]) == 't_unit')
            ctx.require(ok, 'C17.R1', fi, call,
                        'converter of the wrong kind or direction',
                        key='%s | conv %s' % (fi.full, nm))
        if fname != 'convert_mass_flow_rate':
            iu = U.single_def(fi.node, 'input_unit')
            kind = 'length' if fname == 'convert_length' else 'temperature'
            ctx.require(iu is not None and src(iu) ==
                        "data['Setup']['Units']['%s']" % kind, 'C17.R1', fi,
                        iu if iu is not None else fi.node,
                        'input unit must be read from Setup/Units/%s' % kind,
                        key=fi.full + ' | input_unit')
        aliases = IP.local_aliases(fi.node, roots)
        for t, st in U.stores(fi.node):
            if isinstance(t, ast.Name):
                continue        # local binding, not a store into the input
            paths = IP.resolve(fi.node, t, roots, aliases)
            if paths is None:
                continue
            if isinstance(st, ast.Delete):
                # only the delta_temp fold may delete
                ok = all(p[-1] == 'delta_temp' for p in paths)
                ctx.require(ok, 'C17.R2', fi, st, 'converter deletes an input '
                            'key', key='%s | del %s' % (fi.full, src(t)))
                continue
            app = _conv_application(fi, st.value, set(convs)) \
                if isinstance(st, ast.Assign) else None
            srcpaths = IP.resolve(fi.node, app[0], roots, aliases,
                                  line=st.lineno) if app else None
            if app is not None:
                # a conversion store behind an unconditional jump converts
                # nothing: it must not count towards coverage
                g_ = cfg_of(fi)
                nd_ = g_.node_of(st)
                if nd_ is None or not g_.is_reachable(nd_):
                    ctx.violation(
                        'C17.R1', fi, st, 'the conversion store into %s is '
                        'unreachable (dead code behind an unconditional '
                        'jump): the value is never converted'
                        % ', '.join(sorted({IP.fmt(p) for p in paths})),
                        key='%s | dead conversion store %s'
                        % (fi.full, ' '.join(src(t).split())))
                    continue
            for p in paths:
                canon = _canon(p, keys, sections)
                if p[0] == 'Assignment':
                    canon = tuple(p[:2]) + ('*', '*', p[-1]) \
                        if p[-1] != STAR_ else tuple(p)
                if app is None:
                    # the delta_temp dead branch stores outlet_temp=conv(t_out)
                    ctx.violation(
                        'C17.R2', fi, st, 'converter stores a value that is '
                        'not the conversion of the same input path into %s: '
                        'the internal data then depend on the unit system'
                        % IP.fmt(p), key='%s | impure store %s'
                        % (fi.full, IP.fmt(p)))
                    continue
                same = srcpaths is not None and (
                    p in srcpaths or
                    any(_strip_star(p) == _strip_star(q) for q in srcpaths))
                if not same:
                    if p[-1] == 'outlet_temp' and 't_out' in src(st.value):
                        ctx.ok('C17.R1', fi, st, 'delta_temp fold (dead after '
                               'convert_assn_deltaT_to_outletT): outlet = '
                               'conv(delta + inlet) in user units')
                        continue
                    ctx.violation('C17.R1', fi, st,
                                  'store into %s converts a different path'
                                  % IP.fmt(p))
                    continue
                if canon is None:
                    ctx.violation('C17.R1', fi, st, 'converted path %s is not '
                                  'in the schema' % IP.fmt(p))
                    continue
                converted.setdefault(canon, []).append((fi, st, app[1], p))
    # coverage and exactly-once
    need = {}
    for p in LENGTH:
        need[p] = 'convert_length'
    for p in TEMPERATURE:
        need[p] = 'convert_temperature'
    need[ASSIGN_TEMP] = 'convert_temperature'
    need[ASSIGN_MFR] = 'convert_mass_flow_rate'
    cl = repo.func('read_input', 'convert_length')
    for p, fn in sorted(need.items()):
        fi = repo.func('read_input', fn)
        got = [x for x in converted.get(p, []) if x[0] is fi]
        # distinct statements (a literal-list loop yields one stmt per key)
        n = len({id(x[1]) for x in got})
        if n == 0:
            ctx.violation('C17.R1', fi, None,
                          'dimensional input %s is never converted by %s: a '
                          'non-default unit system changes the problem'
                          % (IP.fmt(p), fn),
                          key='%s | unconverted %s' % (fi.full, IP.fmt(p)))
        elif n > 1:
            ctx.violation('C17.R1', fi, got[1][1],
                          '%s is converted %d times' % (IP.fmt(p), n),
                          key='%s | converted twice %s' % (fi.full, IP.fmt(p)))
        else:
            napp = len(got[0][2])
            want_n = 2 if fn == 'convert_mass_flow_rate' else 1
            ctx.require(napp == want_n, 'C17.R1', fi, got[0][1],
                        '%s must be passed through %d conversion(s), found %d'
                        % (IP.fmt(p), want_n, napp),
                        key='%s | conv count %s' % (fi.full, IP.fmt(p)))
    for p, lst in converted.items():
        if p not in need:
            ctx.violation('C17.R1', lst[0][0], lst[0][1],
                          'non-dimensional / fixed-SI input %s is unit-'
                          'converted' % IP.fmt(p))
    return converted


STAR_ = IP.STAR


def _strip_star(p):
    return tuple(x for x in p if x != STAR_)


# ---------------------------------------------------------------------------

def r3(ctx):
    repo = ctx.repo
    # one call site of convert_units
    sites = []
    for fi in repo.all_funcs():
        for c in U.attr_calls(fi.node, 'convert_units'):
            sites.append((fi, c))
    init = repo.func('read_input', 'DASSH_Input.__init__')
    ok = len(sites) == 1 and sites[0][0] is init and not U.guards(sites[0][1])
    ctx.require(ok, 'C17.R3', sites[0][0] if sites else init,
                sites[0][1] if sites else init.node,
                'convert_units must be called exactly once, unconditionally, '
                'from DASSH_Input.__init__ (found %d sites)' % len(sites),
                key='dassh.read_input | convert_units call sites')
    if ok:
        # every check_* that reads raw dimensional values runs before it;
        # check_geodst (compares with SI file data) runs after it
        line = sites[0][1].lineno
        before, after = [], []
        for c in [n for n in walk_no_nested(init.node)
                  if isinstance(n, ast.Call)]:
            nm = call_name(c) or ''
            if nm.startswith('self.check_') or nm in (
                    'self.convert_assn_deltaT_to_outletT',
                    'self.load_materials'):
                (before if c.lineno < line else after).append(nm[5:])
        ctx.require(after == ['check_geodst'], 'C17.R3', init, sites[0][1],
                    'only check_geodst may run after unit conversion (found '
                    '%s): the other checks compare raw user values' % after,
                    key=init.full + ' | checks after conversion')
        ctx.require('convert_assn_deltaT_to_outletT' in before, 'C17.R3',
                    init, sites[0][1], 'delta_temp must be folded into '
                    'outlet_temp (in user units) before temperature '
                    'conversion: a temperature difference must never reach an '
                    'offset converter',
                    key=init.full + ' | deltaT folded first')
    # each converter once, under its not-default guard
    cu = repo.func('read_input', 'DASSH_Input.convert_units')
    for fn, unit in (('convert_temperature', 'temperature'),
                     ('convert_length', 'length')):
        calls = [c for c in U.attr_calls(cu.node, fn)]
        allsites = [(f, c) for f in repo.all_funcs()
                    for c in U.attr_calls(f.node, fn)]
        ok = len(calls) == 1 and len(allsites) == 1
        if ok:
            gs = U.guards(calls[0])
            ok = len(gs) == 1 and gs[0][1] and ' '.join(src(gs[0][0]).split()) \
                == "self.data['Setup']['Units']['%s'] not in " \
                   "utils._DEFAULT_UNITS['%s']" % (unit, unit)
            st = parent(calls[0])
            ok = ok and isinstance(st, ast.Assign) and \
                src(st.targets[0]) == 'self.data' and \
                src(calls[0].args[0]) == 'self.data'
        ctx.require(ok, 'C17.R3', cu, calls[0] if calls else cu.node,
                    '%s must be applied exactly once to self.data under the '
                    '"unit not default" guard' % fn,
                    key='%s | %s once' % (cu.full, fn))
    calls = U.attr_calls(cu.node, 'convert_mass_flow_rate')
    allsites = [(f, c) for f in repo.all_funcs()
                for c in U.attr_calls(f.node, 'convert_mass_flow_rate')]
    ok = len(calls) == 1 and len(allsites) == 1
    if ok:
        gs = U.guards(calls[0])
        ok = len(gs) == 1 and gs[0][1] and ' '.join(src(gs[0][0]).split()) == \
            "m_unit not in utils._DEFAULT_UNITS['mass'] or t_unit not in " \
            "utils._DEFAULT_UNITS['time']"
    ctx.require(ok, 'C17.R3', cu, calls[0] if calls else cu.node,
                'convert_mass_flow_rate must be applied once when mass or '
                'time unit is not the default',
                key=cu.full + ' | convert_mass_flow_rate once')
    # deltaT fold adds the inlet temperature in the same (user) units
    df = repo.func('read_input', 'DASSH_Input.convert_assn_deltaT_to_outletT')
    h = find_all("to = self.data['Assignment']['ByPosition'][Q_i][2][k] + "
                 "self.data['Core']['coolant_inlet_temp']", df.node, 'stmt')
    ctx.require(bool(h), 'C17.R3', df, h[0][0] if h else df.node,
                'outlet = delta + inlet in user units', key=df.full + ' | fold')


# ---------------------------------------------------------------------------
# R4: affine maps over exact rationals

def _affine(fi):
    """(a, b) with f(x) = a*x + b for a one-parameter straight-line
    converter; None if not affine."""
    rets = [n for n in walk_no_nested(fi.node) if isinstance(n, ast.Return)]
    if len(rets) != 1 or len(fi.params) != 1:
        return None
    x = fi.params[0]

    def ev(n):
        if isinstance(n, ast.Name) and n.id == x:
            return (Fraction(1), Fraction(0))
        c = const(n)
        if isinstance(c, (int, float)) and not isinstance(c, bool):
            return (Fraction(0), Fraction(str(c)))
        if isinstance(n, ast.BinOp):
            l, r = ev(n.left), ev(n.right)
            if l is None or r is None:
                return None
            if isinstance(n.op, ast.Add):
                return (l[0] + r[0], l[1] + r[1])
            if isinstance(n.op, ast.Sub):
                return (l[0] - r[0], l[1] - r[1])
            if isinstance(n.op, ast.Mult):
                if l[0] == 0:
                    return (l[1] * r[0], l[1] * r[1])
                if r[0] == 0:
                    return (l[0] * r[1], l[1] * r[1])
                return None
            if isinstance(n.op, ast.Div):
                if r[0] == 0 and r[1] != 0:
                    return (l[0] / r[1], l[1] / r[1])
                return None
        if isinstance(n, ast.UnaryOp) and isinstance(n.op, ast.USub):
            v = ev(n.operand)
            return None if v is None else (-v[0], -v[1])
        return None
    return ev(rets[0].value)


UNIT_WORD = {'meters': '_m', 'centimeters': '_cm', 'millimeters': '_mm',
             'inches': '_in', 'feet': '_ft', 'kelvin': '_degK',
             'celsius': '_degC', 'fahrenheit': '_degF', 'pounds': '_lb',
             'kilograms': '_kg', 'seconds': '_sec', 'minutes': '_min',
             'hours': '_hr'}
# independent reference values (exact): 1 in = 2.54 cm, 1 ft = 12 in,
# 1 lb = 0.453592 kg (repo's 6-digit constant), C = K - 273.15,
# F = (K - 273.15) * 9/5 + 32
REF_TO_SI = {
    'centimeters': (Fraction(1, 100), 0), 'millimeters': (Fraction(1, 1000), 0),
    'inches': (Fraction(254, 10000), 0), 'feet': (Fraction(3048, 10000), 0),
    'celsius': (1, Fraction(27315, 100)),
    'fahrenheit': (Fraction(5, 9), Fraction(27315, 100) - Fraction(160, 9)),
    'pounds': (Fraction(453592, 1000000), 0),
    'minutes': (60, 0), 'hours': (3600, 0)}
SI_WORD = {'meters', 'kelvin', 'kilograms', 'seconds'}


def r4(ctx):
    repo = ctx.repo
    um = repo.mod('utils')
    convs = {}
    for q, fi in um.funcs.items():
        if q.startswith('_') and '_to_' in q and fi.cls is None:
            a, _, b = q[1:].partition('_to_')
            if a in UNIT_WORD and b in UNIT_WORD:
                convs[(a, b)] = fi
    if len(convs) < 18:
        raise AnalysisError('utils: expected >= 18 _x_to_y converters, found '
                            '%d' % len(convs))
    for (a, b), fi in sorted(convs.items()):
        f = _affine(fi)
        if f is None:
            ctx.violation('C17.R4', fi, fi.node, 'converter is not an affine '
                          'map of its argument')
            continue
        inv = convs.get((b, a))
        if inv is None:
            ctx.violation('C17.R4', fi, fi.node, 'converter has no inverse '
                          '_%s_to_%s' % (b, a))
            continue
        g = _affine(inv)
        if g is None:
            continue
        # g(f(x)) = g0*(f0*x + f1) + g1
        comp = (g[0] * f[0], g[0] * f[1] + g[1])
        ctx.require(comp == (1, 0), 'C17.R4', fi, fi.node,
                    '_%s_to_%s followed by _%s_to_%s is x -> %s*x + %s, not '
                    'the identity' % (a, b, b, a, comp[0], comp[1]),
                    key='%s | round trip' % fi.full)
        # absolute reference
        other = a if b in SI_WORD else b
        if other in REF_TO_SI and (a in SI_WORD or b in SI_WORD):
            ra, rb = REF_TO_SI[other]
            ref = (Fraction(ra), Fraction(rb))
            if a in SI_WORD:     # SI -> other is the inverse of ref
                ref = (1 / ref[0], -ref[1] / ref[0])
            ctx.require(f == ref, 'C17.R4', fi, fi.node,
                        '_%s_to_%s is x -> %s*x + %s, reference is %s*x + %s'
                        % (a, b, f[0], f[1], ref[0], ref[1]),
                        key='%s | reference value' % fi.full)
    # dispatchers: the unit arguments are touched only through membership /
    # equality tests and table look-ups, so the dispatch is decided over the
    # finite set of unit words by the checker's own finite-domain evaluator
    # (dsa/finite.py): every (in, out) pair of words of the kind must select
    # exactly the converter named after the two units, or raise.
    from .. import finite as FD
    g, funcs = FD.module_literals(um.tree)
    defs = {q: f.node for q, f in um.funcs.items() if f.cls is None}
    word_of = {v: k for k, v in UNIT_WORD.items()}
    kinds_ = {'get_length_conversion': ('_m', ('_cm', '_mm', '_m', '_in',
                                               '_ft')),
              'get_temperature_conversion': ('_degK', ('_degC', '_degF',
                                                       '_degK')),
              'get_mass_conversion': ('_kg', ('_lb', '_kg')),
              'get_time_conversion': ('_sec', ('_sec', '_min', '_hr'))}
    for getter, (si, lists_) in kinds_.items():
        fi = repo.func('utils', getter)
        for ln in lists_:
            if not isinstance(g.get(ln), list) or not g[ln]:
                raise AnalysisError('utils.%s: word list not a literal' % ln)
        n = 0
        bad = {}
        for la in lists_:
            for lb in lists_:
                if la == lb:
                    want = None
                elif la == si or lb == si:
                    want = '_%s_to_%s' % (word_of[la], word_of[lb])
                else:
                    want = None
                for wa in g[la]:
                    for wb in g[lb]:
                        # a word shared with a list of another kind ('m' is
                        # metres and minutes) is taken as format_unit reads it
                        ev = FD.Evaluator(g, funcs, defs={
                            k: v for k, v in defs.items() if k != getter})
                        try:
                            kind, val, node = ev.call_function(
                                fi.node, [wa, wb])
                        except FD.Unsupported as e:
                            raise AnalysisError(
                                '%s(%r, %r): dispatcher not evaluable over '
                                'the unit words: %s' % (getter, wa, wb, e))
                        got = val.name if (kind == 'return' and isinstance(
                            val, FD.Sym)) else (None if kind == 'raise'
                                                else repr(val))
                        n += 1
                        if got != want:
                            bad.setdefault((la, lb, got, want), (wa, wb, node))
        for (la, lb, got, want), (wa, wb, node) in sorted(
                bad.items(), key=lambda kv: str(kv[0])):
            anchor = node if hasattr(node, 'lineno') else fi.node
            ctx.violation('C17.R4', fi, anchor,
                          'dispatcher selects %s for (%r, %r) [in_unit in %s, '
                          'out_unit in %s], expected %s'
                          % (got or 'an error', wa, wb, la, lb,
                             want or 'an error'),
                          key='%s | dispatch %s %s' % (fi.full, la, lb))
        if not bad:
            ctx.ok('C17.R4', fi, fi.node,
                   'dispatch table decided over %d unit-word pairs' % n)
        if n < 4:
            raise AnalysisError('%s: dispatcher not exercised' % getter)
    # unit word lists are disjoint within a kind (else the first branch wins)
    lists = {}
    for nm, v in um.globals.items():
        if nm in UNIT_WORD.values():
            lists[nm] = U.literal_list(v)
    kinds = [('_cm', '_mm', '_m', '_in', '_ft'), ('_degC', '_degF', '_degK'),
             ('_lb', '_kg'), ('_sec', '_min', '_hr')]
    for kd in kinds:
        seen = {}
        for nm in kd:
            for w in lists.get(nm) or []:
                if w in seen:
                    ctx.violation('C17.R4', 'dassh/utils.py', None,
                                  'unit word %r in both %s and %s'
                                  % (w, seen[w], nm),
                                  key='dassh.utils | duplicate unit %s' % w)
                seen[w] = nm
        ctx.ok('C17.R4', 'dassh/utils.py', None, 'unit lists %s disjoint'
               % (kd,))
    # tables convert SI -> user
    tb = repo.cls('table', 'DASSH_Table')
    for meth, pat in (('_get_len_conv', "utils.get_length_conversion('m', unit)"),
                      ('_get_temp_conv',
                       "utils.get_temperature_conversion('K', unit)")):
        fi = repo.func('table', 'DASSH_Table.' + meth)
        h = find_all(pat, fi.node)
        ctx.require(bool(h), 'C17.R4', fi, h[0][0] if h else fi.node,
                    'output tables must convert from SI to the user unit',
                    key=fi.full + ' | direction')
    fi = repo.func('table', 'DASSH_Table._get_mfr_conv')
    h1 = find_all("utils.get_mass_conversion('kg', m_unit)", fi.node)
    h2 = find_all("utils.get_time_conversion(t_unit, 's')", fi.node)
    ctx.require(bool(h1 and h2), 'C17.R4', fi, fi.node,
                'mass-flow output conversion: kg->user mass, time inverted',
                key=fi.full + ' | direction')


# ---------------------------------------------------------------------------
# R6: raw dimensional values before conversion

def _dimensional(path, keys, sections):
    c = _canon(path, keys, sections)
    if c is None:
        if path and path[0] == 'Assignment' and path[-1] in (
                'outlet_temp', 'delta_temp', 'flowrate'):
            return 'assignment ' + path[-1]
        return None
    if c in LENGTH or c in FOLDED_LENGTH:
        return 'length'
    if c in TEMPERATURE:
        return 'temperature'
    return None


def r6(ctx, keys, sections):
    repo = ctx.repo
    ci = repo.cls('read_input', 'DASSH_Input')
    init = repo.func('read_input', 'DASSH_Input.__init__')
    conv_line = None
    for c in walk_no_nested(init.node):
        if isinstance(c, ast.Call) and call_name(c) == 'self.convert_units':
            conv_line = c.lineno
    if conv_line is None:
        raise AnalysisError('DASSH_Input.__init__: convert_units call')
    before = []
    for c in walk_no_nested(init.node):
        if isinstance(c, ast.Call) and (call_name(c) or '').startswith(
                'self.') and c.lineno < conv_line:
            m = repo.lookup_method(ci, call_name(c)[5:])
            if m is not None and m.cls is not None and \
                    m.mod.name == 'dassh.read_input':
                before.append(m)
    # closure over self-calls
    seen, work = {}, list(before)
    while work:
        m = work.pop()
        if m.full in seen:
            continue
        seen[m.full] = m
        for c in walk_no_nested(m.node):
            if isinstance(c, ast.Call) and (call_name(c) or '').startswith(
                    'self.') and call_name(c).count('.') == 1:
                t = repo.lookup_method(ci, call_name(c)[5:])
                if t is not None and t.mod.name == 'dassh.read_input':
                    work.append(t)
    roots = {'self.data'}
    n = 0
    for m in seen.values():
        aliases = IP.local_aliases_with(m.node, roots, {})

        def dim_of(e):
            """kind of raw dimensional value an expression carries (through
            single-definition locals), unless wrapped by a converter."""
            e2 = U.expand_locals(m.node, e, before=getattr(e, 'lineno', None),
                                 keep=('conv',))
            for x in ast.walk(e2):
                if isinstance(x, ast.Call):
                    f = call_name(x) or ''
                    if f in ('conv', 'float', 'len', 'str', 'isinstance',
                             'sorted', 'min', 'max') or 'conversion' in f:
                        if f in ('min', 'max', 'sorted', 'float'):
                            continue
                        return None if f.startswith('conv') or \
                            'conversion' in f else None
            for x in ast.walk(e2):
                if isinstance(x, (ast.Subscript,)):
                    par_ok = True
                    ps = IP.resolve(m.node, x, roots, aliases,
                                    line=getattr(e, 'lineno', 0))
                    for p_ in ps or []:
                        k = _dimensional(p_, keys, sections)
                        if k:
                            return k
            return None
        for c in walk_no_nested(m.node):
            if isinstance(c, ast.Call):
                f = call_name(c) or ''
                if f.startswith('self.') or f in ('conv', 'float', 'len',
                                                  'str', 'isinstance', 'min',
                                                  'max', 'sorted', 'any',
                                                  'all', 'range', 'print',
                                                  'abs', 'int', 'list',
                                                  'enumerate', 'zip') \
                        or 'conversion' in f or f.startswith(('np.', 'os.',
                                                              'utils.')) \
                        or f.endswith(('.format', '.append', '.keys',
                                       '.values', '.items', '.lower', '.get',
                                       '.index', '.join', '.split')):
                    continue
                if not f or '.' not in f:
                    continue    # builtins / helpers of the reader itself
                for a in list(c.args) + [k_.value for k_ in c.keywords]:
                    n += 1
                    k = dim_of(a)
                    ctx.require(
                        k is None, 'C17.R6', m, c,
                        'a raw %s in user units (%s) is handed to %s() before '
                        'convert_units has run: what that call computes or '
                        'stores depends on the unit system of the input'
                        % (k, ' '.join(src(a).split())[:60], f),
                        key='%s | raw %s -> %s' % (m.full, k, f))
            if isinstance(c, ast.Compare):
                sides = [c.left] + list(c.comparators)
                lits = [const(x) for x in sides]
                dims = [dim_of(x) for x in sides]
                for i, d in enumerate(dims):
                    if d is None:
                        continue
                    for j, lv in enumerate(lits):
                        if j == i or not isinstance(lv, (int, float)) or \
                                isinstance(lv, bool):
                            continue
                        n += 1
                        bad = (d == 'length' and lv != 0) or \
                              (d.startswith(('temperature', 'assignment '
                                             'outlet', 'assignment delta'))
                               and True and lv != 0 and False)
                        ctx.require(
                            not bad, 'C17.R6', m, c,
                            'a raw %s in user units is compared with the '
                            'dimensional literal %r before unit conversion'
                            % (d, lv), key='%s | raw %s vs literal %s'
                            % (m.full, d, lv))
    ctx.extra['pre_conversion_methods'] = len(seen)
    ctx.extra['pre_conversion_uses_examined'] = n


# ---------------------------------------------------------------------------
# R7: in-place converted containers are not shared between positions

_COPIERS = ('copy.deepcopy', 'deepcopy', 'copy.copy', 'dict', 'list')


def _fresh(e, loop, _depth=0):
    """Expression e yields a new object on every iteration of `loop`."""
    if isinstance(e, (ast.Dict, ast.DictComp, ast.List, ast.ListComp,
                      ast.Constant, ast.Tuple, ast.JoinedStr)):
        return True
    if isinstance(e, ast.Call):
        nm = call_name(e) or ''
        if nm in _COPIERS:
            return True
        if isinstance(e.func, ast.Attribute) and e.func.attr == 'copy':
            return True
        return True        # a call result: not a stored reference
    # a reference: fresh only if its root is (re)bound inside the loop body
    root = e
    while isinstance(root, (ast.Subscript, ast.Attribute)):
        root = root.value
    if isinstance(root, ast.Name):
        bound_in = any(root.id in [x.id for t in U.stmt_targets(st)
                                   for x in ast.walk(t)
                                   if isinstance(x, ast.Name)]
                       for st in ast.walk(loop) if isinstance(st, ast.stmt)
                       and st is not loop)
        own = any(isinstance(x, ast.Name) and x.id == root.id
                  for x in ast.walk(loop.target))
        if own:
            return True
        if bound_in:
            # bound in the body: fresh only if every such binding is
            defs = [st for st in ast.walk(loop) if isinstance(st, ast.Assign)
                    and len(st.targets) == 1 and isinstance(
                        st.targets[0], ast.Name)
                    and st.targets[0].id == root.id]
            if defs and _depth < 4:
                return all(_fresh(d.value, loop, _depth + 1) for d in defs)
            return True
        return False
    return False


def r7(ctx):
    repo = ctx.repo
    rm = repo.mod('read_input')
    # which element of a ByPosition entry do the converters rewrite in place
    elems = set()
    for fi in rm.funcs.values():
        if not (fi.cls is None and fi.name.startswith('convert_')):
            continue
        for t, st in U.stores(fi.node):
            root, subs = IP.chain(t)
            cs = [const(x) for x in subs]
            if 'ByPosition' in cs:
                k = cs.index('ByPosition')
                if len(subs) >= k + 4 and isinstance(cs[k + 2], int):
                    elems.add(cs[k + 2])
    if not elems:
        raise AnalysisError('no converter rewrites ByPosition entries in '
                            'place any more: revisit C17.R7')
    ctx.ok('C17.R7', 'dassh/read_input.py', None,
           'converters rewrite element(s) %s of a ByPosition entry in place'
           % sorted(elems))
    n = 0
    for fi in rm.funcs.values():
        if fi.mod is not rm:
            continue
        for t, st in U.stores(fi.node):
            if not (isinstance(st, ast.Assign) and isinstance(t, ast.Subscript)
                    and isinstance(t.value, ast.Subscript)
                    and const(t.value.slice) == 'ByPosition'):
                continue
            loops = [l for l in U.enclosing_loops(st)
                     if isinstance(l, ast.For)]
            idx_names = {x.id for x in ast.walk(t.slice)
                         if isinstance(x, ast.Name)}
            # the loop that varies the position index
            var = [l for l in loops
                   if idx_names & {x.id for x in ast.walk(l.target)
                                   if isinstance(x, ast.Name)}]
            if not var:
                continue
            loop = var[0]
            n += 1
            v = st.value
            whole_copy = isinstance(v, ast.Call) and (call_name(v) or '') in (
                'copy.deepcopy', 'deepcopy')
            if whole_copy:
                ctx.ok('C17.R7', fi, st, 'entry is a deep copy per position')
                continue
            bad = []
            if isinstance(v, (ast.List, ast.Tuple)):
                for e_i in sorted(elems):
                    if e_i < len(v.elts) and not _fresh(v.elts[e_i], loop):
                        bad.append('element %d (%s)' % (e_i,
                                                        src(v.elts[e_i])))
            elif not _fresh(v, loop):
                bad.append(src(v)[:60])
            ctx.require(not bad, 'C17.R7', fi, st,
                        'the ByPosition entry stored for each position '
                        'shares %s between all positions of the loop over %s: '
                        'the unit converters rewrite it in place once per '
                        'position, so the value is converted several times'
                        % (', '.join(bad), src(loop.target)),
                        key='%s | ByPosition entry sharing' % fi.full)
    if n == 0:
        raise AnalysisError('construction site of ByPosition entries not '
                            'found: revisit C17.R7')


# ---------------------------------------------------------------------------
# R8: getter calls cannot be asked to convert a unit to itself

_GETTER_DIM = {'get_length_conversion': 'length',
               'get_temperature_conversion': 'temperature',
               'get_mass_conversion': 'mass', 'get_time_conversion': 'time'}


def _excludes_default(test, pol, dim, top_only=True):
    """(test, polarity) establishes `unit not in _DEFAULT_UNITS[dim]`."""
    if isinstance(test, ast.UnaryOp) and isinstance(test.op, ast.Not):
        return _excludes_default(test.operand, not pol, dim)
    if isinstance(test, ast.BoolOp):
        # and/True: any conjunct suffices; or/False: any disjunct's negation
        if (isinstance(test.op, ast.And) and pol) or \
                (isinstance(test.op, ast.Or) and not pol):
            return any(_excludes_default(v, pol, dim) for v in test.values)
        return False
    if isinstance(test, ast.Compare) and len(test.ops) == 1:
        comp = ' '.join(src(test.comparators[0]).split())
        if comp.endswith("_DEFAULT_UNITS['%s']" % dim):
            return (isinstance(test.ops[0], ast.NotIn) and pol) or \
                (isinstance(test.ops[0], ast.In) and not pol)
    return False


def r8(ctx):
    repo = ctx.repo
    um = repo.mod('utils')
    pre = um.funcs.get('_preprocess_units')
    raises = pre is not None and any(isinstance(n, ast.Raise)
                                     for n in ast.walk(pre.node))
    uses = [q for q in _GETTER_DIM if q in um.funcs and any(
        isinstance(c, ast.Call) and call_name(c) == '_preprocess_units'
        for c in ast.walk(um.funcs[q].node))]
    if not raises or len(uses) != len(_GETTER_DIM):
        raise AnalysisError('utils getters no longer reject same-unit '
                            'conversion through _preprocess_units: revisit '
                            'C17.R8')
    for modname in ('read_input', 'table'):
        m = repo.mod(modname)
        for fi in m.funcs.values():
            for c in walk_no_nested(fi.node):
                if not isinstance(c, ast.Call):
                    continue
                nm = (call_name(c) or '').split('.')[-1]
                if nm not in _GETTER_DIM:
                    continue
                dim = _GETTER_DIM[nm]
                ok = any(_excludes_default(t, pol, dim)
                         for t, pol in U.guards(c) +
                         dataflow.path_conditions(fi, c))
                how = 'guarded in place'
                if not ok:
                    # try / except ValueError around the call
                    p_ = parent(c)
                    while p_ is not None and p_ is not fi.node:
                        if isinstance(p_, ast.Try) and any(
                                h.type is None or 'ValueError' in src(h.type)
                                or src(h.type) == 'Exception'
                                for h in p_.handlers) and any(
                                    c in list(ast.walk(b)) for b in p_.body):
                            ok = True
                            how = 'inside try/except ValueError'
                        p_ = parent(p_)
                if not ok and fi.cls is None:
                    # module-level converter: guarded at every call site
                    sites = [x for f2 in m.funcs.values()
                             for x in walk_no_nested(f2.node)
                             if isinstance(x, ast.Call) and
                             (call_name(x) or '') == fi.name]
                    if sites and all(any(_excludes_default(t, pol, dim)
                                         for t, pol in U.guards(x))
                                     for x in sites):
                        ok = True
                        how = 'guarded at all %d call sites' % len(sites)
                # ... and by nothing about another dimension: a converter
                # fetched only when some *other* unit is non-default is
                # skipped for kg/min, lb/s style combinations
                foreign = []
                for t, pol in U.guards(c):
                    for x in ast.walk(t):
                        if isinstance(x, ast.Compare) and len(x.ops) == 1 \
                                and isinstance(x.ops[0], (ast.In, ast.NotIn)):
                            comp = ' '.join(src(x.comparators[0]).split())
                            for d2 in set(_GETTER_DIM.values()) - {dim}:
                                if comp.endswith("_DEFAULT_UNITS['%s']" % d2):
                                    foreign.append(d2)
                ctx.require(
                    not foreign, 'C17.R8', fi, c,
                    'the %s converter is fetched only under a condition on '
                    'the %s unit: with a default %s unit the %s part of the '
                    'value is never converted' % (dim, foreign, foreign, dim),
                    key='%s | %s guarded by another dimension'
                    % (fi.full, nm))
                ctx.require(
                    ok, 'C17.R8', fi, c,
                    'utils.%s raises "Cannot convert unit to itself" when '
                    'the %s unit is the default one, and no guard on the way '
                    'to this call excludes the default %s unit: the problem '
                    'written in that unit system stops with a traceback'
                    % (nm, dim, dim), note=how,
                    key='%s | %s unguarded' % (fi.full, nm))


def r9(ctx):
    """Converters walk collections of the input (assemblies, tables, axial
    regions, positions) and convert each member inside the loop.  A loop
    variable or loop-local value read after its loop holds only the last
    member: the store then converts one member and leaves the others in the
    user's unit (rule shared with C20.R5)."""
    from .c20 import stale_loop_reads
    m = ctx.repo.mod('read_input')
    for q, fi in sorted(m.funcs.items()):
        if not fi.name.startswith('convert_'):
            continue
        hits = stale_loop_reads(fi.node)
        for lp, x in hits:
            ctx.violation('C17.R9', fi, x,
                          '`%s`, bound in the loop at line %d, is read after '
                          'the loop has ended: only the last member of the '
                          'collection is converted, the others keep the '
                          'user\'s unit' % (x.id, lp.lineno),
                          key='%s | stale loop value %s' % (fi.full, x.id))
        if not hits:
            ctx.ok('C17.R9', fi, None, 'no loop value read after its loop')
