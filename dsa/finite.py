"""Finite-domain evaluation of small dispatch functions.

A dispatcher (``get_length_conversion``, ...) touches its string arguments
only through ``in`` / ``==`` tests, dictionary look-ups and re-binding, so its
behaviour over the finite set of canonical unit names is decided by
evaluating its syntax tree with every argument fixed to one member of that
set.  The evaluator below is the checker's own (it never imports or executes
repository code); it understands the statement kinds dispatchers are written
with and raises ``Unsupported`` -- turned into an analysis error by the
caller -- for anything else.

Values: str / int / float / bool / None, list, tuple, dict, ``Sym(name)`` for
a reference to a module-level function and ``OPAQUE`` for values the decision
never depends on (message strings, loggers).
"""
import ast
from fractions import Fraction


class Unsupported(Exception):
    pass


class Sym:
    def __init__(self, name):
        self.name = name

    def __eq__(self, o):
        return isinstance(o, Sym) and o.name == self.name

    def __hash__(self):
        return hash(('Sym', self.name))

    def __repr__(self):
        return 'Sym(%s)' % self.name


class ModuleRef:
    """A module object bound by an import statement / importlib."""
    def __init__(self, name):
        self.name = name

    def __eq__(self, o):
        return isinstance(o, ModuleRef) and o.name == self.name

    def __hash__(self):
        return hash(('ModuleRef', self.name))

    def __repr__(self):
        return 'ModuleRef(%s)' % self.name


class MemberRef:
    """module.attr"""
    def __init__(self, module, attr):
        self.module, self.attr = module, attr

    def __eq__(self, o):
        return isinstance(o, MemberRef) and (o.module, o.attr) == (
            self.module, self.attr)

    def __hash__(self):
        return hash(('MemberRef', self.module, self.attr))

    def __repr__(self):
        return '%s.%s' % (self.module, self.attr)


class CallRef:
    """the (undetermined) result of calling module.attr(...)"""
    def __init__(self, member):
        self.member = member

    def __repr__(self):
        return '%r(...)' % (self.member,)


EXIT_CALLS = ('sys.exit', 'exit', 'quit', 'os._exit')


def _is2d(x):
    return isinstance(x, list) and x and all(isinstance(r, list) for r in x)


def _np_sort(x, axis=-1):
    if not isinstance(x, (list, tuple)):
        raise Unsupported('sort of a non-sequence')
    x = [list(r) if isinstance(r, (list, tuple)) else r for r in x]
    if _is2d(x):
        if axis in (-1, 1):
            return [sorted(r) for r in x]
        if axis == 0:
            cols = [sorted(c) for c in zip(*x)]
            return [list(r) for r in zip(*cols)]
        if axis is None:
            return sorted(v for r in x for v in r)
        raise Unsupported('sort axis')
    return sorted(x)


def _np_reshape(x, shape, *rest):
    if rest:
        shape = (shape,) + tuple(rest)
    flat = [v for r in x for v in (r if isinstance(r, (list, tuple))
                                   else [r])]
    if isinstance(shape, int):
        shape = (shape,)
    shape = list(shape)
    if len(shape) == 1:
        return flat
    if len(shape) != 2:
        raise Unsupported('reshape rank')
    r, c = shape
    if r == -1:
        r = len(flat) // c
    if c == -1:
        c = len(flat) // r
    if r * c != len(flat):
        raise Unsupported('reshape size')
    return [flat[i * c:(i + 1) * c] for i in range(r)]


NP_MODELS = {
    'np.sort': _np_sort, 'numpy.sort': _np_sort,
    'sorted': lambda x, reverse=False: sorted(x, reverse=reverse),
    'np.reshape': _np_reshape,
    'np.array': lambda x, **k: [list(r) if isinstance(r, tuple) else r
                                for r in x],
    'np.asarray': lambda x, **k: list(x),
    'min': lambda *a: min(*a), 'max': lambda *a: max(*a),
    'np.min': lambda x: min(x), 'np.max': lambda x: max(x),
    'abs': abs, 'int': int, 'float': lambda x: x,
    'range': lambda *a: list(range(*a)),
    'reversed': lambda x: list(reversed(x)),
    'enumerate': lambda x: [(i, v) for i, v in enumerate(x)],
    'zip': lambda *a: [tuple(t) for t in zip(*a)],
    'np.flip': lambda x: list(reversed(x)),
}


# methods that change a list in place: modelled in Evaluator._list_method
LIST_MUTATORS = ('append', 'extend', 'insert', 'reverse', 'sort', 'pop',
                 'remove', 'clear')


class _Opaque:
    def __repr__(self):
        return 'OPAQUE'


OPAQUE = _Opaque()


class Raised(Exception):
    def __init__(self, node):
        self.node = node


class _Return(Exception):
    def __init__(self, value, node):
        self.value, self.node = value, node


class _Break(Exception):
    pass


class _Continue(Exception):
    pass


class Evaluator:
    """globals_: name -> python literal value (lists of words, dicts);
    funcs: set of module-level function names (evaluate to Sym);
    models: name -> python callable modelling a called helper."""

    def __init__(self, globals_, funcs, models=None, fuel=2000, defs=None,
                 attr_env=None):
        self.g, self.funcs, self.models = globals_, funcs, models or {}
        self.fuel = fuel
        self.defs = defs or {}      # name -> FunctionDef evaluated on call
        self.attr_env = attr_env or {}   # source text -> value

    # -- expressions --------------------------------------------------------
    def ev(self, n, env):
        self.fuel -= 1
        if self.fuel < 0:
            raise Unsupported('evaluation budget exhausted')
        if isinstance(n, ast.Constant):
            return n.value
        if self.attr_env and isinstance(n, (ast.Attribute, ast.Subscript)):
            t = ast.unparse(n)
            if t in self.attr_env:
                return self.attr_env[t]
        if isinstance(n, (ast.GeneratorExp, ast.ListComp, ast.SetComp)):
            return self._comp(n, env)
        if isinstance(n, ast.Name):
            if n.id in env:
                return env[n.id]
            if n.id in self.g:
                return self.g[n.id]
            if n.id in self.funcs:
                return Sym(n.id)
            return OPAQUE
        if isinstance(n, (ast.Tuple, ast.List)):
            v = [self.ev(e, env) for e in n.elts]
            return tuple(v) if isinstance(n, ast.Tuple) else v
        if isinstance(n, ast.Dict):
            d = {}
            for k, v in zip(n.keys, n.values):
                if k is None:
                    inner = self.ev(v, env)
                    if not isinstance(inner, dict):
                        raise Unsupported('** of non-dict')
                    d.update(inner)
                else:
                    d[self._hashable(self.ev(k, env))] = self.ev(v, env)
            return d
        if isinstance(n, ast.JoinedStr):
            return OPAQUE
        if isinstance(n, ast.BinOp):
            a, b = self.ev(n.left, env), self.ev(n.right, env)
            if a is OPAQUE or b is OPAQUE:
                return OPAQUE
            if isinstance(n.op, ast.Add) and type(a) is type(b) and \
                    isinstance(a, (str, list, tuple)):
                return a + b
            num = (int, float, Fraction)
            if isinstance(a, num) and isinstance(b, num) and not isinstance(
                    a, bool) and not isinstance(b, bool):
                try:
                    if isinstance(n.op, ast.Add):
                        return a + b
                    if isinstance(n.op, ast.Sub):
                        return a - b
                    if isinstance(n.op, ast.Mult):
                        return a * b
                    if isinstance(n.op, ast.Div):
                        return Fraction(a) / Fraction(b)
                    if isinstance(n.op, ast.FloorDiv):
                        return a // b
                    if isinstance(n.op, ast.Mod):
                        return a % b
                    if isinstance(n.op, ast.Pow) and isinstance(b, int):
                        return a ** b
                except ZeroDivisionError:
                    raise Raised(n)
            if isinstance(n.op, ast.Mult) and isinstance(a, list) and \
                    isinstance(b, int):
                return a * b
            return OPAQUE
        if isinstance(n, ast.UnaryOp) and isinstance(n.op, ast.Not):
            return not self.truth(self.ev(n.operand, env))
        if isinstance(n, ast.BoolOp):
            res = None
            for v in n.values:
                res = self.ev(v, env)
                t = self.truth(res)
                if isinstance(n.op, ast.And) and not t:
                    return res
                if isinstance(n.op, ast.Or) and t:
                    return res
            return res
        if isinstance(n, ast.IfExp):
            return self.ev(n.body if self.truth(self.ev(n.test, env))
                           else n.orelse, env)
        if isinstance(n, ast.Compare):
            left = self.ev(n.left, env)
            for op, c in zip(n.ops, n.comparators):
                right = self.ev(c, env)
                if not self._cmp(op, left, right):
                    return False
                left = right
            return True
        if isinstance(n, ast.UnaryOp) and isinstance(n.op, ast.USub):
            v = self.ev(n.operand, env)
            return OPAQUE if v is OPAQUE else -v
        if isinstance(n, ast.Slice):
            parts = [None if x is None else self.ev(x, env)
                     for x in (n.lower, n.upper, n.step)]
            if any(p_ is OPAQUE for p_ in parts):
                raise Unsupported('slice with undetermined bound')
            return slice(*parts)
        if isinstance(n, ast.Subscript):
            base, key = self.ev(n.value, env), self.ev(n.slice, env)
            if isinstance(key, slice) and isinstance(base, (list, tuple,
                                                            str)):
                return base[key]
            if isinstance(key, tuple) and isinstance(base, list) and \
                    len(key) == 2 and all(isinstance(k, (int, slice))
                                          for k in key):
                rows = base[key[0]]
                if isinstance(key[0], int):
                    return rows[key[1]]
                return [r[key[1]] for r in rows]
            if base is OPAQUE or key is OPAQUE:
                raise Unsupported('subscript of undetermined value: %s'
                                  % ast.unparse(n))
            try:
                return base[self._hashable(key)]
            except (KeyError, IndexError, TypeError):
                raise Raised(n)
        if isinstance(n, ast.Call):
            return self.call(n, env)
        if isinstance(n, ast.Attribute):
            base = self.ev(n.value, env)
            if isinstance(base, ModuleRef):
                return MemberRef(base.name, n.attr)
            return OPAQUE
        raise Unsupported('expression %s' % ast.unparse(n))

    def _comp(self, n, env):
        out = []

        def rec(k, e):
            if k == len(n.generators):
                out.append(self.ev(n.elt, e))
                return
            gen = n.generators[k]
            it = self.ev(gen.iter, e)
            if it is OPAQUE or not isinstance(it, (list, tuple, dict, set,
                                                   frozenset)):
                raise Unsupported('comprehension over undetermined value')
            for v in list(it):
                e2 = dict(e)
                self.bind(gen.target, v, e2)
                if all(self.truth(self.ev(c, e2)) for c in gen.ifs):
                    rec(k + 1, e2)
        rec(0, env)
        return out

    @staticmethod
    def _hashable(v):
        if isinstance(v, list):
            return tuple(v)
        return v

    @staticmethod
    def truth(v):
        if v is OPAQUE:
            raise Unsupported('decision depends on an undetermined value')
        return bool(v)

    def _cmp(self, op, a, b):
        if a is OPAQUE or b is OPAQUE:
            raise Unsupported('comparison with an undetermined value')
        if isinstance(op, ast.In):
            return self._hashable(a) in b
        if isinstance(op, ast.NotIn):
            return self._hashable(a) not in b
        if isinstance(op, ast.Eq):
            return a == b
        if isinstance(op, ast.NotEq):
            return a != b
        if isinstance(op, ast.Is):
            return a is b or (a is None and b is None)
        if isinstance(op, ast.IsNot):
            return not (a is b or (a is None and b is None))
        try:
            if isinstance(op, ast.Gt):
                return a > b
            if isinstance(op, ast.GtE):
                return a >= b
            if isinstance(op, ast.Lt):
                return a < b
            if isinstance(op, ast.LtE):
                return a <= b
        except TypeError:
            raise Unsupported('ordering of %r and %r' % (a, b))
        raise Unsupported('comparison operator')

    def call(self, n, env):
        f = n.func
        fname = ast.unparse(f)
        if fname in EXIT_CALLS:
            raise Raised(n)
        if fname in ('importlib.import_module', 'import_module',
                     '__import__') and len(n.args) == 1:
            a = self.ev(n.args[0], env)
            if not isinstance(a, str):
                raise Unsupported('dynamic import of undetermined module')
            return ModuleRef(a)
        if fname in NP_MODELS:
            args = [self.ev(a, env) for a in n.args]
            kw = {k.arg: self.ev(k.value, env) for k in n.keywords}
            if any(a is OPAQUE for a in args) or any(
                    v is OPAQUE for v in kw.values()):
                return OPAQUE
            try:
                return NP_MODELS[fname](*args, **kw)
            except Unsupported:
                raise
            except Exception as e:
                raise Unsupported('model of %s: %s' % (fname, e))
        if isinstance(f, ast.Name) and f.id in self.models:
            return self.models[f.id](*[self.ev(a, env) for a in n.args])
        if isinstance(f, ast.Name) and f.id in self.defs and not n.keywords:
            kind, val, node = self.call_function(
                self.defs[f.id], [self.ev(a, env) for a in n.args])
            if kind == 'raise':
                raise Raised(node)
            return val
        if isinstance(f, ast.Attribute):
            recv = self.ev(f.value, env)
            args = [self.ev(a, env) for a in n.args]
            if isinstance(recv, ModuleRef):
                return CallRef(MemberRef(recv.name, f.attr))
            if isinstance(recv, dict) and f.attr == 'get' and args:
                return recv.get(self._hashable(args[0]),
                                args[1] if len(args) > 1 else None)
            if isinstance(recv, dict) and f.attr in ('keys', 'values',
                                                     'items') and not args:
                return list(getattr(recv, f.attr)())
            if isinstance(recv, str) and f.attr in ('lower', 'upper',
                                                    'strip') and not args:
                return getattr(recv, f.attr)()
            if isinstance(recv, list) and f.attr in LIST_MUTATORS:
                return self._list_method(n, recv, f.attr, args, env)
            return OPAQUE          # logging and the like
        if isinstance(f, ast.Name) and f.id in ('all', 'any') and \
                len(n.args) == 1:
            seq = self.ev(n.args[0], env)
            if seq is OPAQUE:
                raise Unsupported('all/any of undetermined value')
            vals = [self.truth(v) for v in seq]
            return all(vals) if f.id == 'all' else any(vals)
        if isinstance(f, ast.Name) and f.id in ('tuple', 'list', 'set',
                                                'frozenset', 'dict', 'len'):
            args = [self.ev(a, env) for a in n.args]
            if any(a is OPAQUE for a in args):
                return OPAQUE
            try:
                return {'tuple': tuple, 'list': list, 'set': set,
                        'frozenset': frozenset, 'dict': dict,
                        'len': len}[f.id](*args)
            except Exception:
                raise Unsupported('builtin call %s' % ast.unparse(n))
        return OPAQUE

    def _list_method(self, n, recv, attr, args, env):
        """In-place methods of a list the evaluator built itself (values are
        Python lists and aliases share the object, as in the language).  A
        module-level literal table is never mutated (it is shared between
        evaluations); a mutator without a model is an analysis error, never
        silently ignored."""
        if any(recv is v for v in self.g.values()):
            raise Unsupported('in-place change of a module-level table: %s'
                              % ast.unparse(n))
        if n.keywords and not (attr == 'sort' and all(
                k.arg == 'reverse' for k in n.keywords)):
            raise Unsupported('list method %s' % ast.unparse(n))
        if attr == 'append' and len(args) == 1:
            recv.append(args[0])
            return None
        if attr == 'extend' and len(args) == 1:
            if args[0] is OPAQUE or not isinstance(args[0], (list, tuple)):
                raise Unsupported('extend by an undetermined value')
            recv.extend(args[0])
            return None
        if attr == 'insert' and len(args) == 2 and isinstance(args[0], int) \
                and not isinstance(args[0], bool):
            recv.insert(args[0], args[1])
            return None
        if attr == 'reverse' and not args:
            recv.reverse()
            return None
        if attr == 'sort' and not args:
            kw = {k.arg: self.ev(k.value, env) for k in n.keywords}
            if any(v is OPAQUE for v in recv) or any(
                    not isinstance(v, bool) for v in kw.values()):
                raise Unsupported('sort of undetermined values')
            try:
                recv.sort(**kw)
            except TypeError:
                raise Unsupported('sort of incomparable values')
            return None
        if attr == 'pop' and len(args) <= 1 and all(
                isinstance(a, int) and not isinstance(a, bool) for a in args):
            try:
                return recv.pop(*args)
            except IndexError:
                raise Raised(n)
        raise Unsupported('list method %s' % ast.unparse(n))

    # -- statements ---------------------------------------------------------
    def bind(self, tgt, val, env):
        if isinstance(tgt, ast.Name):
            env[tgt.id] = val
        elif isinstance(tgt, (ast.Tuple, ast.List)):
            if val is OPAQUE:
                for e in tgt.elts:
                    self.bind(e, OPAQUE, env)
                return
            if not isinstance(val, (tuple, list)) or len(val) != len(tgt.elts):
                raise Unsupported('unpacking')
            for e, v in zip(tgt.elts, val):
                self.bind(e, v, env)
        elif isinstance(tgt, ast.Subscript):
            base = self.ev(tgt.value, env)
            if isinstance(base, dict):
                base[self._hashable(self.ev(tgt.slice, env))] = val
            elif base is not OPAQUE:
                raise Unsupported('store into %s' % ast.unparse(tgt))
        elif isinstance(tgt, ast.Attribute):
            self.attr_env[ast.unparse(tgt)] = val
        else:
            raise Unsupported('assignment target')

    def run_block(self, body, env):
        for st in body:
            self.run(st, env)

    def run(self, st, env):
        self.fuel -= 1
        if self.fuel < 0:
            raise Unsupported('evaluation budget exhausted')
        if isinstance(st, ast.Assign):
            v = self.ev(st.value, env)
            for t in st.targets:
                self.bind(t, v, env)
        elif isinstance(st, ast.AnnAssign):
            if st.value is not None:
                self.bind(st.target, self.ev(st.value, env), env)
        elif isinstance(st, ast.AugAssign):
            cur = self.ev(ast.copy_location(ast.BinOp(
                left=_load(st.target), op=st.op, right=st.value), st), env)
            self.bind(st.target, cur, env)
        elif isinstance(st, ast.Expr):
            if isinstance(st.value, ast.Call):
                self.ev(st.value, env)
        elif isinstance(st, ast.If):
            self.run_block(st.body if self.truth(self.ev(st.test, env))
                           else st.orelse, env)
        elif isinstance(st, ast.Return):
            raise _Return(None if st.value is None
                          else self.ev(st.value, env), st)
        elif isinstance(st, ast.Raise):
            raise Raised(st)
        elif isinstance(st, ast.Assert):
            if not self.truth(self.ev(st.test, env)):
                raise Raised(st)
        elif isinstance(st, ast.Pass):
            pass
        elif isinstance(st, ast.For):
            it = self.ev(st.iter, env)
            if it is OPAQUE or not isinstance(it, (list, tuple, dict)):
                raise Unsupported('loop over undetermined value')
            broke = False
            for v in list(it):
                self.bind(st.target, v, env)
                try:
                    self.run_block(st.body, env)
                except _Continue:
                    continue
                except _Break:
                    broke = True
                    break
            if not broke:           # for/else: only when not left by break
                self.run_block(st.orelse, env)
        elif isinstance(st, ast.Break):
            raise _Break()
        elif isinstance(st, ast.Continue):
            raise _Continue()
        elif isinstance(st, ast.Try):
            try:
                self.run_block(st.body, env)
            except Raised:
                if not st.handlers:
                    raise
                self.run_block(st.handlers[0].body, env)
            else:
                self.run_block(st.orelse, env)
            self.run_block(st.finalbody, env)
        elif isinstance(st, ast.Import):
            for al in st.names:
                if al.asname:
                    env[al.asname] = ModuleRef(al.name)
        elif isinstance(st, ast.ImportFrom):
            for al in st.names:
                env[al.asname or al.name] = ModuleRef(
                    '%s.%s' % (st.module, al.name))
        elif isinstance(st, ast.Global):
            pass
        else:
            raise Unsupported('statement %s' % type(st).__name__)

    def call_function(self, fnode, args):
        """-> ('return', value, node) | ('raise', None, node)"""
        params = [a.arg for a in fnode.args.args]
        env = dict(zip(params, args))
        try:
            self.run_block(fnode.body, env)
        except _Return as r:
            return 'return', r.value, r.node
        except Raised as r:
            return 'raise', None, r.node
        return 'return', None, fnode


def _load(t):
    import copy
    t = copy.deepcopy(t)
    for x in ast.walk(t):
        if hasattr(x, 'ctx'):
            x.ctx = ast.Load()
    return t


def module_literals(tree):
    """Module-level NAME = <literal> bindings (names may refer to earlier
    ones), evaluated with the evaluator itself."""
    g = {}
    funcs = {n.name for n in tree.body if isinstance(n, ast.FunctionDef)}
    e = Evaluator(g, funcs, fuel=10 ** 6)
    for st in tree.body:
        if isinstance(st, ast.Assign) and len(st.targets) == 1 and \
                isinstance(st.targets[0], ast.Name):
            try:
                v = e.ev(st.value, {})
            except (Unsupported, Raised):
                continue
            if v is not OPAQUE:
                g[st.targets[0].id] = v
    return g, funcs
