"""Forward dataflow over the statement CFG: definite assignment."""
import ast

from .core import stmt_targets, walk_no_nested, src, parent
from .cfg import cfg_of, CFG
from . import util as U


def _assigned_names(node_ast):
    """Names bound by the header part of a CFG node."""
    out = set()
    if isinstance(node_ast, (ast.Assign, ast.AugAssign, ast.AnnAssign)):
        for t in stmt_targets(node_ast):
            if isinstance(t, ast.Name):
                out.add(t.id)
    elif isinstance(node_ast, (ast.Import, ast.ImportFrom)):
        for a in node_ast.names:
            out.add((a.asname or a.name).split('.')[0])
    elif isinstance(node_ast, (ast.FunctionDef, ast.ClassDef,
                               ast.AsyncFunctionDef)):
        out.add(node_ast.name)
    # walrus
    if isinstance(node_ast, ast.AST):
        for n in ast.walk(node_ast) if not isinstance(
                node_ast, (ast.FunctionDef, ast.ClassDef)) else []:
            if isinstance(n, ast.NamedExpr) and isinstance(n.target, ast.Name):
                out.add(n.target.id)
    return out


def _comp_bound(expr):
    """Names bound inside comprehensions / lambdas of expr (not locals)."""
    out = set()
    for n in ast.walk(expr):
        if isinstance(n, ast.comprehension):
            for x in ast.walk(n.target):
                if isinstance(x, ast.Name):
                    out.add((x.id, id(n)))
    return out


def _loads(expr):
    """Name loads in an expression, excluding names bound by an enclosing
    comprehension/lambda within the expression and nested defs."""
    out = []

    def rec(n, bound):
        if isinstance(n, (ast.ListComp, ast.SetComp, ast.GeneratorExp,
                          ast.DictComp)):
            b = set(bound)
            for g in n.generators:
                rec(g.iter, b)
                for x in ast.walk(g.target):
                    if isinstance(x, ast.Name):
                        b.add(x.id)
                for i in g.ifs:
                    rec(i, b)
            if isinstance(n, ast.DictComp):
                rec(n.key, b)
                rec(n.value, b)
            else:
                rec(n.elt, b)
            return
        if isinstance(n, ast.Lambda):
            b = set(bound) | {a.arg for a in n.args.args + n.args.kwonlyargs}
            if n.args.vararg:
                b.add(n.args.vararg.arg)
            if n.args.kwarg:
                b.add(n.args.kwarg.arg)
            rec(n.body, b)
            return
        if isinstance(n, (ast.FunctionDef, ast.ClassDef,
                          ast.AsyncFunctionDef)):
            return
        if isinstance(n, ast.Name):
            if isinstance(n.ctx, ast.Load) and n.id not in bound:
                out.append(n)
            return
        for c in ast.iter_child_nodes(n):
            rec(c, bound)
    rec(expr, set())
    return out


def norm_guard(test, pol):
    while isinstance(test, ast.UnaryOp) and isinstance(test.op, ast.Not):
        test, pol = test.operand, not pol
    return (src(test), pol)


def _branch_of(test_node, succ):
    """True / False / None: which branch of an if-test a successor is."""
    st = test_node.stmt
    if not isinstance(st, ast.If) or succ.stmt is None:
        return None
    x = succ.stmt
    while x is not None and parent(x) is not st:
        x = parent(x)
    if x is None:
        return False if not st.orelse else None    # fall-through = else
    if any(x is b for b in st.body):
        return True
    if any(x is b for b in st.orelse):
        return False
    return None


def definite_assignment(fi, assume=None):
    """-> list of (name, use_node_ast, cfg_node) for loads of a function
    local on a path where it may be unassigned.  Assumes every for/while loop
    whose body can complete runs at least once (states on the loop-exit edge
    come from the back edges)."""
    fn = fi.node
    g = cfg_of(fi)
    # locals: names assigned anywhere in the function (not nested)
    local = set()
    globs = set()
    for n in walk_no_nested(fn):
        if isinstance(n, (ast.Global, ast.Nonlocal)):
            globs |= set(n.names)
        if isinstance(n, ast.stmt):
            local |= _assigned_names(n)
        if isinstance(n, (ast.For, ast.AsyncFor)):
            local |= {x.id for x in ast.walk(n.target)
                      if isinstance(x, ast.Name)}
        if isinstance(n, (ast.With, ast.AsyncWith)):
            for it in n.items:
                if it.optional_vars is not None:
                    local |= {x.id for x in ast.walk(it.optional_vars)
                              if isinstance(x, ast.Name)}
        if isinstance(n, ast.ExceptHandler) and n.name:
            local.add(n.name)
    local -= globs
    a = fn.args
    params = {x.arg for x in a.posonlyargs + a.args + a.kwonlyargs}
    if a.vararg:
        params.add(a.vararg.arg)
    if a.kwarg:
        params.add(a.kwarg.arg)
    local -= params

    def gen(node):
        s = set()
        if node.kind == 'stmt':
            s |= _assigned_names(node.stmt)
        elif node.kind == 'loop':
            s |= {x.id for x in ast.walk(node.stmt.target)
                  if isinstance(x, ast.Name)}
        elif node.kind == 'with':
            for it in node.stmt.items:
                if it.optional_vars is not None:
                    s |= {x.id for x in ast.walk(it.optional_vars)
                          if isinstance(x, ast.Name)}
        elif node.kind == 'except':
            if node.stmt.name:
                s.add(node.stmt.name)
        return s & local

    def kill(node):
        if node.kind == 'stmt' and isinstance(node.stmt, ast.Delete):
            return {t.id for t in node.stmt.targets
                    if isinstance(t, ast.Name)}
        return set()

    reach = g.reachable_from(g.entry)
    # back-edge preds of loop headers
    body_reach = {}
    for n in g.nodes:
        if n.kind in ('loop', 'test') and isinstance(
                n.stmt, (ast.For, ast.While, ast.AsyncFor)):
            body_first = [s for s in n.succ
                          if _in_body(s, n.stmt)]
            inbody = set()
            stack = list(body_first)
            while stack:
                x = stack.pop()
                if x.id in inbody or x.id == n.id:
                    continue
                inbody.add(x.id)
                stack.extend(x.succ)
            body_reach[n.id] = inbody
    TOP = None
    IN = {n.id: TOP for n in g.nodes}
    OUT = {n.id: TOP for n in g.nodes}
    IN[g.entry.id] = set()
    OUT[g.entry.id] = set()

    def edge_state(p, n):
        """State flowing along edge p -> n."""
        if OUT[p.id] is TOP:
            return TOP
        if assume and p.kind == 'test' and isinstance(p.stmt, ast.If):
            txt, pol = norm_guard(p.expr, True)
            br = _branch_of(p, n)
            if br is not None:
                # taking branch `br` means test value == br; normalised
                # value of txt is then (br == pol)
                val = br if pol else (not br)
                if (txt, not val) in assume:
                    return TOP       # contradicts an assumed guard
        if n.id in p.exc_succ:
            return IN[p.id] if IN[p.id] is not TOP else TOP
        # loop exit edge: header -> statement outside its body
        if p.id in body_reach and not _in_body(n, p.stmt) and \
                n.id not in body_reach[p.id]:
            backs = [q for q in p.pred if q.id in body_reach[p.id]
                     and OUT[q.id] is not TOP]
            if backs:
                st = None
                for q in backs:
                    st = set(OUT[q.id]) if st is None else st & OUT[q.id]
                return st | gen(p)
        return OUT[p.id]

    order = [n for n in g.nodes if n.id in reach]
    changed = True
    it = 0
    while changed and it < 60:
        changed = False
        it += 1
        for n in order:
            if n is g.entry:
                continue
            st = TOP
            for p in n.pred:
                if p.id not in reach:
                    continue
                es = edge_state(p, n)
                if es is TOP:
                    continue
                st = set(es) if st is TOP else st & es
            if st is TOP:
                continue
            if IN[n.id] is TOP or st != IN[n.id]:
                IN[n.id] = st
                changed = True
            o = (st - kill(n)) | gen(n)
            if OUT[n.id] is TOP or o != OUT[n.id]:
                OUT[n.id] = o
                changed = True
    issues = []
    for n in order:
        if IN[n.id] is TOP or n.kind in ('entry', 'exit', 'abort'):
            continue
        parts = []
        if n.kind == 'stmt':
            st = n.stmt
            if isinstance(st, (ast.FunctionDef, ast.ClassDef,
                               ast.AsyncFunctionDef)):
                continue
            if isinstance(st, ast.Assign):
                parts = [st.value] + [t for t in st.targets
                                      if not isinstance(t, ast.Name)]
            elif isinstance(st, ast.AugAssign):
                parts = [st.value, st.target]
            elif isinstance(st, ast.AnnAssign):
                parts = [st.value] if st.value else []
            else:
                parts = [st]
        elif n.kind == 'loop':
            parts = [n.expr]
        else:
            parts = [p for p in g.header_parts(n)
                     if not (n.kind == 'with' and isinstance(p, ast.Name)
                             and isinstance(p.ctx, ast.Store))]
        for part in parts:
            if part is None:
                continue
            for nm in _loads(part):
                if nm.id in local and nm.id not in IN[n.id]:
                    # AugAssign target counts as a load
                    issues.append((nm.id, nm, n))
            if isinstance(part, ast.Name) and isinstance(part.ctx, ast.Store) \
                    and isinstance(n.stmt, ast.AugAssign) \
                    and part.id in local and part.id not in IN[n.id]:
                issues.append((part.id, part, n))
    return issues


def _in_body(node, loop_stmt):
    """CFG node belongs to the body of loop_stmt."""
    s = node.stmt
    if s is None:
        return False
    x = s
    while x is not None:
        p = parent(x)
        if p is loop_stmt:
            return any(x is b for b in loop_stmt.body)
        x = p
    return False


def path_conditions(fi, astnode):
    """[(test expr, polarity)] of if-tests whose given branch lies on every
    path from the function entry to the statement containing astnode
    (flow-based: covers early return / continue / raise forms that lexical
    nesting does not show)."""
    g = cfg_of(fi)
    target = g.node_containing(astnode)
    if target is None:
        return []
    out = []
    for T in g.nodes:
        if T.kind != 'test' or not isinstance(T.stmt, ast.If):
            continue
        for s in T.succ:
            if s.id in T.exc_succ:
                continue
            pol = _branch_of(T, s)
            if pol is None:
                continue
            # is target reachable from the entry when edge T -> s is cut?
            seen = set()
            stack = [g.entry]
            hit = False
            while stack:
                n = stack.pop()
                if n.id in seen:
                    continue
                seen.add(n.id)
                if n is target:
                    hit = True
                    break
                for x in n.succ:
                    if n is T and x is s:
                        continue
                    stack.append(x)
            if not hit:
                out.append((T.expr if T.expr is not None else T.stmt.test,
                            pol))
    return out
