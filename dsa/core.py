"""dsa core: loader (K1), AST helpers, pattern matcher, check context.

Nothing under /repo is imported or executed: sources are read as text and
parsed with ``ast``.
"""
import ast
import hashlib
import json
import os
import re
import sys
import time

REPO = os.environ.get('DASSH_VERIF_REPO', '/repo')
PKG = 'dassh'
VERIF = os.path.dirname(os.path.dirname(os.path.abspath(__file__)))


class AnalysisError(Exception):
    """The analyser could not do its job (exit 2), never a violation."""


# ---------------------------------------------------------------------------
# AST helpers


def src(node):
    """Normalised source text of a node (position/format independent)."""
    if node is None:
        return 'None'
    if isinstance(node, str):
        return node
    if isinstance(node, list):
        return '; '.join(src(n) for n in node)
    return ast.unparse(node)


def short(node, n=110):
    s = ' '.join(src(node).split())
    return s if len(s) <= n else s[:n - 3] + '...'


def set_parents(tree):
    for p in ast.walk(tree):
        for c in ast.iter_child_nodes(p):
            c._parent = p
    tree._parent = None


def parent(node):
    return getattr(node, '_parent', None)


def ancestors(node):
    p = parent(node)
    while p is not None:
        yield p
        p = parent(p)


def enclosing_stmt(node):
    n = node
    while n is not None and not isinstance(n, ast.stmt):
        n = parent(n)
    return n


_wnn_cache = {}


def walk_no_nested(node, include_self=True):
    """Walk a function body without descending into nested defs/classes
    (memoised per root node: the trees are immutable during a run)."""
    key = (id(node), include_self)
    hit = _wnn_cache.get(key)
    if hit is not None and hit[0] is node:
        return hit[1]
    out = list(_walk_no_nested(node, include_self))
    if isinstance(node, (ast.FunctionDef, ast.AsyncFunctionDef, ast.For,
                         ast.While, ast.If, ast.ClassDef)):
        _wnn_cache[key] = (node, out)
    return out


def _walk_no_nested(node, include_self=True):
    stack = [node]
    first = True
    while stack:
        n = stack.pop()
        if not first and isinstance(
                n, (ast.FunctionDef, ast.AsyncFunctionDef, ast.ClassDef,
                    ast.Lambda)):
            continue
        if include_self or not first:
            yield n
        first = False
        stack.extend(reversed(list(ast.iter_child_nodes(n))))


def calls_in(node):
    return [n for n in ast.walk(node) if isinstance(n, ast.Call)]


def dotted(node):
    """'a.b.c' for Name/Attribute chains, else None."""
    parts = []
    while isinstance(node, ast.Attribute):
        parts.append(node.attr)
        node = node.value
    if isinstance(node, ast.Name):
        parts.append(node.id)
        return '.'.join(reversed(parts))
    return None


def call_name(call):
    return dotted(call.func) if isinstance(call, ast.Call) else None


def const(node, default=None):
    if isinstance(node, ast.Constant):
        return node.value
    if (isinstance(node, ast.UnaryOp) and isinstance(node.op, ast.USub)
            and isinstance(node.operand, ast.Constant)
            and isinstance(node.operand.value, (int, float))):
        return -node.operand.value
    return default


def is_const(node):
    return const(node, _NOCONST) is not _NOCONST


_NOCONST = object()


def access_path(node):
    """Normalised access path: self.temp['coolant_int'][i] ->
    ('self','temp',"'coolant_int'",'[*]').  None if not a path."""
    parts = []
    while True:
        if isinstance(node, ast.Attribute):
            parts.append(node.attr)
            node = node.value
        elif isinstance(node, ast.Subscript):
            c = const(node.slice, _NOCONST)
            if c is not _NOCONST and isinstance(c, (str, int)):
                parts.append(repr(c))
            else:
                parts.append('[*]')
            node = node.value
        elif isinstance(node, ast.Name):
            parts.append(node.id)
            return tuple(reversed(parts))
        else:
            return None


def path_str(p):
    if p is None:
        return '?'
    out = p[0]
    for x in p[1:]:
        if x == '[*]':
            out += '[*]'
        elif x[:1] in "'\"" or x.lstrip('-').isdigit():
            out += '[%s]' % x
        else:
            out += '.' + x
    return out


def names_in(node):
    return {n.id for n in ast.walk(node) if isinstance(n, ast.Name)}


def contains(node, pred):
    return any(pred(n) for n in ast.walk(node))


def stmt_targets(stmt):
    """Target expressions stored by a statement."""
    if isinstance(stmt, ast.Assign):
        out = []
        for t in stmt.targets:
            out.extend(_flatten_target(t))
        return out
    if isinstance(stmt, (ast.AugAssign, ast.AnnAssign)):
        return _flatten_target(stmt.target)
    if isinstance(stmt, ast.For):
        return _flatten_target(stmt.target)
    if isinstance(stmt, ast.Delete):
        return list(stmt.targets)
    if isinstance(stmt, ast.With):
        out = []
        for it in stmt.items:
            if it.optional_vars is not None:
                out.extend(_flatten_target(it.optional_vars))
        return out
    return []


def _flatten_target(t):
    if isinstance(t, (ast.Tuple, ast.List)):
        out = []
        for e in t.elts:
            out.extend(_flatten_target(e))
        return out
    if isinstance(t, ast.Starred):
        return _flatten_target(t.value)
    return [t]


# ---------------------------------------------------------------------------
# Pattern matcher: python source with metavariables Q_name / Q__ (anonymous)
# 'Q_x' binds an arbitrary expression; repeated names must bind equal source.
# 'QQ_x' as a sole call argument / list element binds the remaining sequence.

_pat_cache = {}


def _parse_pat(pat, mode):
    key = (pat, mode)
    if key not in _pat_cache:
        if mode == 'expr':
            _pat_cache[key] = ast.parse(pat, mode='eval').body
        else:
            _pat_cache[key] = ast.parse(pat).body[0]
    return _pat_cache[key]


def match(pat, node, mode=None, binds=None):
    """Match a node against pattern source. Returns dict of bindings or None."""
    if isinstance(pat, str):
        if mode is None:
            mode = 'stmt' if isinstance(node, ast.stmt) else 'expr'
        pat = _parse_pat(pat, mode)
    b = {} if binds is None else dict(binds)
    return b if _m(pat, node, b) else None


def _m(p, n, b):
    if isinstance(p, ast.Name) and p.id.startswith('Q_'):
        if not isinstance(n, ast.AST):
            return False
        if p.id == 'Q__':
            return True
        if p.id in b:
            return src(b[p.id]) == src(n)
        b[p.id] = n
        return True
    if isinstance(p, ast.Expr) and isinstance(n, ast.Expr):
        return _m(p.value, n.value, b)
    # x += e  ==  x = x + e  (either way round)
    if isinstance(p, ast.AugAssign) and isinstance(n, ast.Assign) and \
            len(n.targets) == 1 and isinstance(n.value, ast.BinOp) and \
            type(n.value.op) is type(p.op):
        for a_, b_ in ((n.value.left, n.value.right),
                       (n.value.right, n.value.left)):
            if src(a_) == src(n.targets[0]) and (
                    a_ is n.value.left or isinstance(p.op, (ast.Add,
                                                            ast.Mult))):
                b2 = dict(b)
                if _m(p.target, n.targets[0], b2) and _m(p.value, b_, b2):
                    b.update(b2)
                    return True
        return False
    if isinstance(p, ast.Assign) and isinstance(n, ast.AugAssign) and \
            len(p.targets) == 1 and isinstance(p.value, ast.BinOp) and \
            type(p.value.op) is type(n.op) and \
            src(p.value.left) == src(p.targets[0]):
        b2 = dict(b)
        if _m(p.targets[0], n.target, b2) and _m(p.value.right, n.value, b2):
            b.update(b2)
            return True
        return False
    if type(p) is not type(n):
        return False
    # X[i, j] (pattern) also matches X[i][j] when i is a scalar integer
    # index (the same element of an array)
    if isinstance(p, ast.Subscript) and isinstance(p.slice, ast.Tuple) and \
            len(p.slice.elts) == 2 and not isinstance(n.slice, ast.Tuple) \
            and isinstance(n.value, ast.Subscript) and \
            scalar_index(n.value.slice, n):
        b2 = dict(b)
        if _m(p.value, n.value.value, b2) and \
                _m(p.slice.elts[0], n.value.slice, b2) and \
                _m(p.slice.elts[1], n.slice, b2):
            b.update(b2)
            return True
        return False
    if isinstance(p, ast.Constant):
        if isinstance(p.value, (int, float)) and isinstance(
                n.value, (int, float)) and not isinstance(p.value, bool) \
                and not isinstance(n.value, bool):
            return p.value == n.value          # 2 matches 2.0
        return type(p.value) is type(n.value) and p.value == n.value
    # + and * are matched modulo associativity / commutativity
    if isinstance(p, ast.BinOp) and isinstance(p.op, (ast.Add, ast.Mult)) \
            and type(p.op) is type(n.op):
        pl, nl = _ac_flat(p, type(p.op)), _ac_flat(n, type(p.op))
        if len(pl) == len(nl) and 2 <= len(pl) <= 6:
            return _ac_match(pl, nl, b)
    for f in p._fields:
        if f in ('ctx', 'type_comment', 'kind'):
            continue
        pv, nv = getattr(p, f, None), getattr(n, f, None)
        if isinstance(pv, list):
            if not isinstance(nv, list):
                return False
            if not _mlist(pv, nv, b):
                return False
        elif isinstance(pv, ast.AST):
            if not isinstance(nv, ast.AST) or not _m(pv, nv, b):
                return False
        else:
            if pv != nv:
                return False
    return True


def scalar_index(idx, at):
    """`idx` (an index expression used at node `at`) is certainly one
    integer: an int literal, or the target of an enclosing
    `for idx in range(...)` loop that is not re-bound in that loop."""
    if isinstance(idx, ast.Constant):
        return isinstance(idx.value, int) and not isinstance(idx.value, bool)
    if not isinstance(idx, ast.Name):
        return False
    for a in ancestors(at):
        if isinstance(a, (ast.FunctionDef, ast.AsyncFunctionDef, ast.Lambda)):
            break
        if isinstance(a, ast.For) and isinstance(a.target, ast.Name) and \
                a.target.id == idx.id:
            it = a.iter
            if not (isinstance(it, ast.Call) and isinstance(it.func, ast.Name)
                    and it.func.id == 'range'):
                return False
            rebound = [x for st in a.body + a.orelse for x in ast.walk(st)
                       if isinstance(x, ast.Name) and x.id == idx.id and
                       isinstance(x.ctx, (ast.Store, ast.Del))]
            return not rebound
    return False


def merge_scalar_subscripts(expr):
    """Copy of an expression (of a loaded tree: parent links are needed to
    find the loops) in which every X[i][j] with a scalar integer i
    (`scalar_index`) is spelled X[i, j]."""
    sub = {}
    for n in ast.walk(expr):
        if isinstance(n, ast.Subscript) and not isinstance(
                n.slice, (ast.Tuple, ast.Slice)) and isinstance(
                    n.value, ast.Subscript) and not isinstance(
                        n.value.slice, (ast.Tuple, ast.Slice)) and \
                scalar_index(n.value.slice, n):
            sub[id(n)] = n

    def rec(n):
        if id(n) in sub:
            return ast.Subscript(
                value=rec(n.value.value),
                slice=ast.Tuple(elts=[rec(n.value.slice), rec(n.slice)],
                                ctx=ast.Load()), ctx=ast.Load())
        new = n.__class__()
        for f, v in ast.iter_fields(n):
            if isinstance(v, ast.AST):
                v = rec(v)
            elif isinstance(v, list):
                v = [rec(x) if isinstance(x, ast.AST) else x for x in v]
            setattr(new, f, v)
        return ast.copy_location(new, n) if hasattr(n, 'lineno') else new
    return ast.fix_missing_locations(rec(expr))


def _ac_flat(e, op):
    if isinstance(e, ast.BinOp) and type(e.op) is op:
        return _ac_flat(e.left, op) + _ac_flat(e.right, op)
    return [e]


def _ac_match(pl, nl, b):
    """Match operand lists as multisets (backtracking over bindings)."""
    if not pl:
        return True
    # most constrained first: non-metavariable patterns
    pl = sorted(pl, key=lambda x: isinstance(x, ast.Name)
                and x.id.startswith('Q_'))
    first, rest = pl[0], pl[1:]
    for i, cand in enumerate(nl):
        b2 = dict(b)
        if _m(first, cand, b2) and _ac_match(rest, nl[:i] + nl[i + 1:], b2):
            b.clear()
            b.update(b2)
            return True
    return False


def _is_seqvar(p):
    if isinstance(p, ast.Expr):
        p = p.value
    return isinstance(p, ast.Name) and p.id.startswith('QQ_')


def _mlist(pl, nl, b):
    # a sequence metavariable swallows the rest
    for i, p in enumerate(pl):
        if _is_seqvar(p):
            if i != len(pl) - 1:
                raise AnalysisError('QQ_ must be last in pattern list')
            name = (p.value if isinstance(p, ast.Expr) else p).id
            b[name] = nl[i:]
            return True
        if i >= len(nl):
            return False
        if not _m(p, nl[i], b):
            return False
    return len(pl) == len(nl)


def _locals_of(root):
    """Names bound inside the function that contains / is `root`
    (assignment, loop, with, comprehension targets) minus its parameters."""
    fn = root
    while fn is not None and not isinstance(fn, (ast.FunctionDef,
                                                 ast.AsyncFunctionDef)):
        fn = parent(fn)
    if fn is None:
        return set()
    key = id(fn)
    hit = _locals_cache.get(key)
    if hit is not None and hit[0] is fn:
        return hit[1]
    names = set()
    for n in ast.walk(fn):
        if isinstance(n, ast.Name) and isinstance(n.ctx, ast.Store):
            names.add(n.id)
    a = fn.args
    for x in a.posonlyargs + a.args + a.kwonlyargs:
        names.discard(x.arg)
    _locals_cache[key] = (fn, names)
    return names


_locals_cache = {}


class _Generalise(ast.NodeTransformer):
    def __init__(self, names):
        self.names = names

    def visit_Name(self, n):
        if n.id in self.names and not n.id.startswith('Q'):
            return ast.copy_location(ast.Name(id='Q_L_' + n.id, ctx=n.ctx), n)
        return n


def find_all(pat, root, mode='expr', nested=True):
    """All (node, bindings) in root matching pattern.  If the literal
    pattern matches nothing, it is retried with every name that is a *local
    variable* of the enclosing function turned into a (consistent)
    metavariable, so that renaming a local does not change the verdict.

    The renaming is one map per function: a literal match records the
    identity for the locals it mentions, a generalised match records what
    each pattern local was bound to, and later patterns in the same function
    must agree with the record (and two pattern locals never share one
    actual name).  Otherwise two statements that are linked only through a
    local's name could each match with a different reading of that name."""
    pl = _parse_pat(pat, mode)
    fn = root
    while fn is not None and not isinstance(fn, (ast.FunctionDef,
                                                 ast.AsyncFunctionDef)):
        fn = parent(fn)
    loc = _locals_of(root)
    pat_names = {n.id for n in ast.walk(pl) if isinstance(n, ast.Name)}
    fnparams = set()
    if fn is not None:
        a = fn.args
        fnparams = {x.arg for x in a.posonlyargs + a.args + a.kwonlyargs}
    cand = {n for n in pat_names if not n.startswith('Q')
            and n not in _KEEP_NAMES and n not in fnparams}
    memo = _renames.setdefault(id(fn), {}) if fn is not None else {}
    out = _find_all(pl, root, mode, nested)
    if out:
        ident = {n for n in cand if n in loc}
        if any(memo.get(n, n) != n for n in ident) or any(
                v in ident and k != v for k, v in memo.items()):
            return []           # contradicts an earlier reading of a local
        for n in ident:
            memo[n] = n
        return out
    gen = {n for n in cand if n in loc or n not in _names_used(fn)}
    if not gen:
        return out
    pg = _Generalise(gen).visit(ast.parse(pat, mode='eval').body
                                if mode == 'expr' else ast.parse(pat).body[0])
    res = []
    for node, bnd in _find_all(pg, root, mode, nested):
        ok = True
        ren = {}
        for k, v in list(bnd.items()):
            if not k.startswith('Q_L_'):
                continue
            actual = v.id if isinstance(v, ast.Name) else None
            if actual is None:
                ok = False
                break
            ren[k[4:]] = actual
        if not ok:
            continue
        for k, v in ren.items():
            if memo.get(k, v) != v:
                ok = False
            if any(k2 != k and v2 == v for k2, v2 in memo.items()):
                ok = False
        if len(set(ren.values())) != len(ren):
            ok = False
        if ok:
            res.append((node, {k: v for k, v in bnd.items()
                               if not k.startswith('Q_L_')}, ren))
    if res:
        # record only a reading all matches agree on
        for k in res[0][2]:
            vals = {r[2][k] for r in res}
            if len(vals) == 1:
                memo[k] = vals.pop()
    return [(n, bnd) for n, bnd, _ in res]


_renames = {}


_KEEP_NAMES = {'self', 'np', 'numpy', 'dassh', 'copy', 'os', 'sys', 'len',
               'range', 'sum', 'min', 'max', 'abs', 'float', 'int', 'list',
               'dict', 'any', 'all', 'sorted', 'reversed', 'tuple', 'set',
               'str', 'True', 'False', 'None', 'utils', 'mesh_functions',
               'module_logger', 'logging', 'math', 'bisect', 'print', 're'}


def _names_used(fn):
    if fn is None:
        return set()
    return {n.id for n in ast.walk(fn) if isinstance(n, ast.Name)}


def _find_all(p, root, mode, nested):
    out = []
    it = ast.walk(root) if nested else walk_no_nested(root)
    for n in it:
        if mode == 'expr' and not isinstance(n, ast.expr):
            continue
        if mode == 'stmt' and not isinstance(n, ast.stmt):
            continue
        b = {}
        if _m(p, n, b):
            out.append((n, b))
    out.sort(key=lambda t: (getattr(t[0], 'lineno', 0),
                            getattr(t[0], 'col_offset', 0)))
    return out


# ---------------------------------------------------------------------------
# Loader


class FuncInfo:
    def __init__(self, mod, node, cls=None, outer=None):
        self.mod = mod
        self.node = node
        self.cls = cls
        self.outer = outer
        self.name = node.name
        if outer is not None:
            self.qual = outer.qual + '.' + node.name
        elif cls is not None:
            self.qual = cls.name + '.' + node.name
        else:
            self.qual = node.name
        self.full = mod.name + ':' + self.qual
        self.is_property = any(
            (isinstance(d, ast.Name) and d.id == 'property')
            or (isinstance(d, ast.Attribute) and d.attr in ('setter',))
            for d in node.decorator_list)
        self.is_setter = any(isinstance(d, ast.Attribute) and d.attr == 'setter'
                             for d in node.decorator_list)

    @property
    def params(self):
        a = self.node.args
        return [x.arg for x in a.posonlyargs + a.args]

    def loc(self, node=None):
        n = node if node is not None else self.node
        return '%s:%d' % (self.mod.rel, getattr(n, 'lineno', 0))

    def __repr__(self):
        return '<Func %s>' % self.full


class ClassInfo:
    def __init__(self, mod, node):
        self.mod = mod
        self.node = node
        self.name = node.name
        self.bases = [dotted(b) for b in node.bases]
        self.methods = {}
        self.full = mod.name + ':' + node.name


class Module:
    def __init__(self, name, path, rel, text):
        self.name = name
        self.path = path
        self.rel = rel
        self.text = text
        try:
            self.tree = ast.parse(text, filename=path)
        except SyntaxError as e:
            raise AnalysisError('cannot parse %s: %s' % (rel, e))
        from . import canon
        self.renames = canon.canonicalise(self.tree, name, text)
        set_parents(self.tree)
        self.funcs = {}      # qual -> FuncInfo
        self.classes = {}    # name -> ClassInfo
        self.imports = {}    # local alias -> dotted module or module.attr
        self.globals = {}    # name -> value node (module-level assigns)
        self._index()

    def _index(self):
        for st in self.tree.body:
            self._index_stmt(st)

    def _index_stmt(self, st):
        if isinstance(st, (ast.FunctionDef, ast.AsyncFunctionDef)):
            self._add_func(st, None, None)
        elif isinstance(st, ast.ClassDef):
            ci = ClassInfo(self, st)
            self.classes[st.name] = ci
            for s in st.body:
                if isinstance(s, (ast.FunctionDef, ast.AsyncFunctionDef)):
                    fi = self._add_func(s, ci, None)
                    # property getter wins over setter in method table
                    if s.name not in ci.methods or not fi.is_setter:
                        ci.methods[s.name] = fi
        elif isinstance(st, ast.Import):
            for a in st.names:
                self.imports[a.asname or a.name.split('.')[0]] = (
                    a.name if a.asname else a.name.split('.')[0])
        elif isinstance(st, ast.ImportFrom):
            base = st.module or ''
            if st.level:
                pkg = self.name.split('.')
                # a module's package is its name minus the last component
                # (package __init__ modules keep their own name)
                if not self.path.endswith('__init__.py'):
                    pkg = pkg[:-1]
                pkg = pkg[:len(pkg) - (st.level - 1)]
                base = '.'.join(pkg + ([st.module] if st.module else []))
            for a in st.names:
                self.imports[a.asname or a.name] = (base + '.' + a.name
                                                    if base else a.name)
        elif isinstance(st, ast.Assign):
            for t in st.targets:
                if isinstance(t, ast.Name):
                    self.globals[t.id] = st.value
        elif isinstance(st, (ast.If, ast.Try)):
            for s in ast.iter_child_nodes(st):
                if isinstance(s, ast.stmt):
                    self._index_stmt(s)

    def _add_func(self, node, cls, outer):
        fi = FuncInfo(self, node, cls, outer)
        key = fi.qual
        if fi.is_setter:
            key = fi.qual + '.setter'
        self.funcs[key] = fi
        for s in walk_no_nested(node, include_self=False):
            pass
        for s in ast.walk(node):
            if s is not node and isinstance(s, ast.FunctionDef) \
                    and _nearest_def(s) is node:
                self._add_func(s, cls, fi)
        return fi


def _nearest_def(node):
    for a in ancestors(node):
        if isinstance(a, (ast.FunctionDef, ast.AsyncFunctionDef)):
            return a
    return None


class Repo:
    """All modules of the package, parsed from the current working tree."""

    def __init__(self, root=None):
        self.root = root or REPO
        self.pkgdir = os.path.join(self.root, PKG)
        if not os.path.isdir(self.pkgdir):
            raise AnalysisError('package dir %s missing' % self.pkgdir)
        self.modules = {}
        h = hashlib.sha256()
        for dp, dn, fn in sorted(os.walk(self.pkgdir)):
            dn.sort()
            if '__pycache__' in dp:
                continue
            for f in sorted(fn):
                if not f.endswith('.py'):
                    continue
                path = os.path.join(dp, f)
                rel = os.path.relpath(path, self.root)
                name = rel[:-3].replace(os.sep, '.')
                if name.endswith('.__init__'):
                    name = name[:-9]
                with open(path, encoding='utf-8') as fh:
                    text = fh.read()
                h.update(rel.encode())
                h.update(text.encode())
                self.modules[name] = Module(name, path, rel, text)
        tp = os.path.join(self.pkgdir, 'input_template.txt')
        self.template_text = None
        if os.path.exists(tp):
            with open(tp, encoding='utf-8') as fh:
                self.template_text = fh.read()
            h.update(self.template_text.encode())
        self.digest = h.hexdigest()[:16]
        self.n_funcs = sum(len(m.funcs) for m in self.modules.values())

    # --- anchors (vanished anchor => AnalysisError) ---
    def mod(self, name):
        full = name if name.startswith(PKG) else PKG + '.' + name
        if full not in self.modules:
            raise AnalysisError('anchor module %s vanished' % full)
        return self.modules[full]

    def func(self, modname, qual):
        m = self.mod(modname)
        if qual not in m.funcs:
            raise AnalysisError('anchor function %s:%s vanished'
                                % (m.name, qual))
        return m.funcs[qual]

    def func_opt(self, modname, qual):
        m = self.mod(modname)
        return m.funcs.get(qual)

    def cls(self, modname, name):
        m = self.mod(modname)
        if name not in m.classes:
            raise AnalysisError('anchor class %s:%s vanished' % (m.name, name))
        return m.classes[name]

    def all_funcs(self):
        for m in self.modules.values():
            for f in m.funcs.values():
                yield f

    def all_classes(self):
        for m in self.modules.values():
            for c in m.classes.values():
                yield c

    def mro(self, ci):
        """Package-internal linearisation (single inheritance in this repo,
        falls back to DFS)."""
        c_ = self.__dict__.setdefault('_mro_cache', {})
        if ci.full in c_:
            return c_[ci.full]
        c_[ci.full] = self._mro(ci)
        return c_[ci.full]

    def _mro(self, ci):
        out, seen = [], set()

        def rec(c):
            if c.full in seen:
                return
            seen.add(c.full)
            out.append(c)
            for b in c.bases:
                bc = self.resolve_class(c.mod, b)
                if bc is not None:
                    rec(bc)
        rec(ci)
        return out

    def resolve_class(self, mod, dotted_name):
        if dotted_name is None:
            return None
        parts = dotted_name.split('.')
        if len(parts) == 1:
            if parts[0] in mod.classes:
                return mod.classes[parts[0]]
            tgt = mod.imports.get(parts[0])
            if tgt:
                mn, _, cn = tgt.rpartition('.')
                m = self.modules.get(mn)
                if m and cn in m.classes:
                    return m.classes[cn]
            return None
        m = self.resolve_module(mod, '.'.join(parts[:-1]))
        if m and parts[-1] in m.classes:
            return m.classes[parts[-1]]
        return None

    def resolve_module(self, mod, dotted_name):
        """Module object denoted by a dotted expression inside `mod`."""
        parts = dotted_name.split('.')
        head = mod.imports.get(parts[0])
        if head is None:
            return None
        full = '.'.join([head] + parts[1:])
        if full in self.modules:
            return self.modules[full]
        return None

    def subclasses(self, ci):
        c_ = self.__dict__.setdefault('_sub_cache', {})
        if ci.full in c_:
            return c_[ci.full]
        c_[ci.full] = self._subclasses(ci)
        return c_[ci.full]

    def _subclasses(self, ci):
        out = []
        for c in self.all_classes():
            if c is ci:
                continue
            if ci in self.mro(c):
                out.append(c)
        return out

    def lookup_method(self, ci, name):
        for c in self.mro(ci):
            if name in c.methods:
                return c.methods[name]
        return None


# ---------------------------------------------------------------------------
# Check context: instances, violations, known findings, evidence


def norm_key(s):
    return ' '.join(str(s).split())


class _RuleAlias:
    def __init__(self, ctx, mapping):
        self._ctx, self._map = ctx, mapping

    def __getattr__(self, name):
        return getattr(self._ctx, name)

    def _r(self, rule):
        return self._map.get(rule, rule)

    def ok(self, rule, *a, **k):
        return self._ctx.ok(self._r(rule), *a, **k)

    def violation(self, rule, *a, **k):
        return self._ctx.violation(self._r(rule), *a, **k)

    def advisory(self, rule, *a, **k):
        return self._ctx.advisory(self._r(rule), *a, **k)

    def require(self, cond, rule, *a, **k):
        return self._ctx.require(cond, self._r(rule), *a, **k)

    def min_instances(self, rule, n):
        return self._ctx.min_instances(self._r(rule), n)


class Ctx:
    def __init__(self, prop, tier, repo):
        self.prop = prop
        self.tier = tier
        self.repo = repo
        self.t0 = time.time()
        self.instances = []     # dict(rule, site, construct, verdict)
        self.violations = []    # dict(rule, key, where, what)
        self.known = []
        self.advisories = []
        self.rule_counts = {}
        self.assumptions = []
        self.decided = []
        self.not_decided = []
        self.trusted = []
        self.extra = {}
        kf = os.path.join(VERIF, 'known_findings.json')
        with open(kf) as fh:
            self.kf = json.load(fh)['findings']

    # -- recording --
    def ok(self, rule, fi_or_loc, node, note=''):
        self._inst(rule, fi_or_loc, node, 'holds', note)

    def _where(self, fi_or_loc, node):
        if isinstance(fi_or_loc, FuncInfo):
            return '%s (%s)' % (fi_or_loc.loc(node), fi_or_loc.qual)
        return str(fi_or_loc)

    def _inst(self, rule, fi_or_loc, node, verdict, note=''):
        self.rule_counts[rule] = self.rule_counts.get(rule, 0) + 1
        self.instances.append({
            'rule': rule, 'where': self._where(fi_or_loc, node),
            'construct': short(node) if node is not None else '',
            'verdict': verdict, **({'note': note} if note else {})})

    def violation(self, rule, fi_or_loc, node, what, key=None):
        """Report a violated instance.  key = (module:qual | construct)."""
        construct = norm_key(src(node)) if node is not None else ''
        if key is None:
            scope = fi_or_loc.full if isinstance(fi_or_loc, FuncInfo) \
                else str(fi_or_loc)
            key = '%s | %s' % (scope, construct)
        key = norm_key(key)
        self._inst(rule, fi_or_loc, node, 'VIOLATED', what)
        rec = {'property': self.prop, 'rule': rule, 'key': key,
               'where': self._where(fi_or_loc, node),
               'construct': construct[:400], 'what': what}
        for k in self.kf:
            if (k['property'] == self.prop and k['rule'] == rule
                    and norm_key(k['key']) == key
                    and k.get('status') == 'known'):
                rec['known_id'] = k.get('id', '')
                self.known.append(rec)
                return
        self.violations.append(rec)

    def advisory(self, rule, fi_or_loc, node, what):
        self.advisories.append('%s %s: %s [%s]' % (
            rule, self._where(fi_or_loc, node), what,
            short(node, 80) if node is not None else ''))

    def require(self, cond, rule, fi_or_loc, node, what, note='', key=None):
        if cond:
            self.ok(rule, fi_or_loc, node, note)
        else:
            self.violation(rule, fi_or_loc, node, what, key=key)
        return bool(cond)

    def alias(self, mapping):
        """View of this context in which another property's rule functions
        report under this property's rule ids (premise reuse)."""
        return _RuleAlias(self, mapping)

    def min_instances(self, rule, n):
        got = self.rule_counts.get(rule, 0)
        if any(i['rule'] == rule and i['verdict'] != 'holds'
               for i in self.instances):
            return      # the rule reported something: it is not blind
        if got < n:
            raise AnalysisError(
                'rule %s matched %d instances, expected >= %d (rule went '
                'blind; anchors changed shape)' % (rule, got, n))

    # -- finishing --
    def finish(self):
        wall = time.time() - self.t0
        distinct = len({(i['rule'], i['where'], i['construct'],
                         i.get('note', '') if i['verdict'] == 'holds' else '')
                        for i in self.instances})
        samples = []
        seen_rules = {}
        for i in self.instances:
            if seen_rules.get(i['rule'], 0) < 3 or i['verdict'] != 'holds':
                samples.append(i)
                seen_rules[i['rule']] = seen_rules.get(i['rule'], 0) + 1
        ev = {
            'property_id': self.prop,
            'tier': self.tier,
            'seed': int(os.environ.get('VERIF_SEED', '0') or 0),
            'level': 'other',
            'coverage': {
                'explanation': (
                    'Static analysis of /repo working tree (ast/CFG/call '
                    'graph/abstract domains; nothing imported or run). '
                    'Decided clauses: ' + ' | '.join(self.decided)
                    + ' || NOT decided: ' + ' | '.join(self.not_decided)),
                'evaluations': len(self.instances),
                'distinct_nontrivial': distinct,
                'rule': ('one evaluation = one (rule, site) obligation found '
                         'in the parsed source; distinct = distinct (rule, '
                         'file:line, construct) triples'),
                'samples': samples[:80],
                'per_rule_instances': dict(sorted(self.rule_counts.items())),
                'modules_parsed': len(self.repo.modules),
                'functions_parsed': self.repo.n_funcs,
                'source_digest': self.repo.digest,
                'trusted_base': self.trusted,
                'advisories': self.advisories,
                'known_findings': [k['key'] for k in self.known],
                'violations_detail': self.violations,
                'exhaustive': True,
                **self.extra,
            },
            'assumptions': self.assumptions,
            'wall_s': round(wall, 3),
            'violations': len(self.violations),
        }
        evdir = os.environ.get('DSA_EVIDENCE_DIR') or \
            os.path.join(VERIF, 'evidence')
        os.makedirs(evdir, exist_ok=True)
        with open(os.path.join(evdir, self.prop + '.json'), 'w') as fh:
            json.dump(ev, fh, indent=1, default=str)
        for a in self.advisories:
            print('ADVISORY: property=%s %s' % (self.prop, a))
        for k in self.known:
            print('KNOWN-FINDING: property=%s rule=%s %s -- %s' % (
                self.prop, k['rule'], k['key'], k['what']))
        print('%s tier=%s: %d rule instances (%d distinct) over %d modules / '
              '%d functions; %d violations, %d known findings, %d advisories;'
              ' %.2fs' % (self.prop, self.tier, len(self.instances), distinct,
                          len(self.repo.modules), self.repo.n_funcs,
                          len(self.violations), len(self.known),
                          len(self.advisories), wall))
        for r, c in sorted(self.rule_counts.items()):
            print('  %-10s %d instances' % (r, c))
        if self.violations:
            rdir = os.path.join(evdir, 'replay')
            os.makedirs(rdir, exist_ok=True)
            rp = os.path.join(rdir, '%s.json' % self.prop)
            with open(rp, 'w') as fh:
                json.dump({'property': self.prop, 'tier': self.tier,
                           'source_digest': self.repo.digest,
                           'violations': self.violations}, fh, indent=1)
            for v in self.violations:
                print('  VIOLATED %s at %s: %s\n      construct: %s\n'
                      '      key: %s' % (v['rule'], v['where'], v['what'],
                                         v['construct'][:200], v['key']))
            print('VIOLATION property=%s replay=%s' % (self.prop, rp))
            return 1
        return 0
