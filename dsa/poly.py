"""D_poly: exact multivariate polynomials / rational functions over named
atoms with Fraction coefficients.  Used as generalised constant propagation
on straight-line arithmetic taken from the AST (no path exploration, no
solver): two formulas are equal iff their cross-multiplied polynomials have
identical coefficient tables.
"""
import ast
from fractions import Fraction

from .core import src, const, call_name


class Poly:
    __slots__ = ('t',)

    def __init__(self, terms=None):
        self.t = {k: v for k, v in (terms or {}).items() if v != 0}

    @staticmethod
    def const(c):
        return Poly({(): Fraction(c)})

    @staticmethod
    def sym(name):
        return Poly({((name, 1),): Fraction(1)})

    def __add__(self, o):
        t = dict(self.t)
        for k, v in o.t.items():
            t[k] = t.get(k, 0) + v
        return Poly(t)

    def __neg__(self):
        return Poly({k: -v for k, v in self.t.items()})

    def __sub__(self, o):
        return self + (-o)

    def __mul__(self, o):
        t = {}
        for k1, v1 in self.t.items():
            for k2, v2 in o.t.items():
                d = dict(k1)
                for s, e in k2:
                    d[s] = d.get(s, 0) + e
                k = tuple(sorted((s, e) for s, e in d.items() if e != 0))
                t[k] = t.get(k, 0) + v1 * v2
        return Poly(t)

    def __pow__(self, n):
        r = Poly.const(1)
        for _ in range(n):
            r = r * self
        return r

    def is_zero(self):
        return not self.t

    def __eq__(self, o):
        return isinstance(o, Poly) and self.t == o.t

    def symbols(self):
        return {s for k in self.t for s, e in k}

    def subs(self, name, poly):
        out = Poly()
        for k, v in self.t.items():
            term = Poly.const(v)
            for s, e in k:
                term = term * ((poly ** e) if s == name else
                               Poly({((s, e),): Fraction(1)}))
            out = out + term
        return out

    def degree_in(self, name):
        return max([dict(k).get(name, 0) for k in self.t] or [0])

    def __repr__(self):
        if not self.t:
            return '0'
        out = []
        for k, v in sorted(self.t.items()):
            m = '*'.join(s if e == 1 else '%s^%d' % (s, e) for s, e in k)
            out.append('%s%s' % (v if (v != 1 or not m) else '',
                                 ('*' if v != 1 and m else '') + m))
        return ' + '.join(out)


class Rat:
    __slots__ = ('n', 'd')

    def __init__(self, n, d=None):
        self.n = n
        self.d = d if d is not None else Poly.const(1)

    @staticmethod
    def sym(name):
        return Rat(Poly.sym(name))

    @staticmethod
    def const(c):
        return Rat(Poly.const(c))

    def __add__(self, o):
        if self.d == o.d:
            return Rat(self.n + o.n, self.d)
        return Rat(self.n * o.d + o.n * self.d, self.d * o.d)

    def __neg__(self):
        return Rat(-self.n, self.d)

    def __sub__(self, o):
        return self + (-o)

    def __mul__(self, o):
        return Rat(self.n * o.n, self.d * o.d)

    def __truediv__(self, o):
        if o.n.is_zero():
            raise ZeroDivisionError
        return Rat(self.n * o.d, self.d * o.n)

    def __pow__(self, k):
        if k >= 0:
            return Rat(self.n ** k, self.d ** k)
        return Rat(self.d ** (-k), self.n ** (-k))

    def equals(self, o):
        return (self.n * o.d - o.n * self.d).is_zero()

    def is_zero(self):
        return self.n.is_zero()

    def subs(self, name, rat):
        """Substitute a symbol by a polynomial (rat.d must be 1)."""
        return Rat(self.n.subs(name, rat.n), self.d.subs(name, rat.n)) \
            if rat.d == Poly.const(1) else self._subs_rat(name, rat)

    def _subs_rat(self, name, rat):
        def sub(p):
            deg = p.degree_in(name)
            out = Rat(Poly())
            for k, v in p.t.items():
                term = Rat(Poly.const(v))
                for s, e in k:
                    term = term * ((rat ** e) if s == name
                                   else Rat(Poly({((s, e),): Fraction(1)})))
                out = out + term
            return out
        return sub(self.n) / sub(self.d)

    def __repr__(self):
        return '(%r) / (%r)' % (self.n, self.d)


class NotPolynomial(Exception):
    pass


def from_ast(node, atoms, env=None, auto=False):
    """Convert an arithmetic expression to a Rat.  atoms: {source text:
    symbol name}; env: {local name: Rat} for previously converted locals.
    auto: any other name / attribute / subscript / call becomes a fresh
    symbol named by its source text (so an unexpected quantity shows up as
    a residual in the identity instead of aborting the analysis)."""
    env = env or {}

    def rec(n):
        s = ' '.join(src(n).split())
        if s in atoms:
            return Rat.sym(atoms[s])
        if isinstance(n, ast.Name) and n.id in env:
            return env[n.id]
        c = const(n)
        if isinstance(c, (int, float)) and not isinstance(c, bool):
            return Rat.const(Fraction(str(c)))
        if isinstance(n, ast.UnaryOp) and isinstance(n.op, ast.USub):
            return -rec(n.operand)
        if isinstance(n, ast.UnaryOp) and isinstance(n.op, ast.UAdd):
            return rec(n.operand)
        if isinstance(n, ast.BinOp):
            if isinstance(n.op, ast.Pow):
                e = const(n.right)
                if isinstance(e, int):
                    return rec(n.left) ** e
                raise NotPolynomial(s)
            l, r = rec(n.left), rec(n.right)
            if isinstance(n.op, ast.Add):
                return l + r
            if isinstance(n.op, ast.Sub):
                return l - r
            if isinstance(n.op, ast.Mult):
                return l * r
            if isinstance(n.op, ast.Div):
                return l / r
        if auto and isinstance(n, (ast.Name, ast.Attribute, ast.Subscript,
                                   ast.Call)):
            return Rat.sym('<%s>' % s)
        raise NotPolynomial(s)
    return rec(node)
