"""Callee resolution and package call graph (K2)."""
import ast

from .core import (call_name, dotted, src, walk_no_nested, const, parent,
                   PKG)

# Receiver table (frozen, reasons): names that by repository convention hold
# an instance of a given class.  Used only when nothing better is known.
RECEIVER_CLASSES = {
    'asm': ['assembly:Assembly'], 'a': ['assembly:Assembly'],
    'asm_obj': ['assembly:Assembly'], 'assembly': ['assembly:Assembly'],
    'self.active_region': ['region_rodded:RoddedRegion',
                           'region_unrodded:SingleNodeHomogeneous',
                           'region_unrodded:MultiNodeHomogeneous'],
    'reg': ['region_rodded:RoddedRegion',
            'region_unrodded:SingleNodeHomogeneous',
            'region_unrodded:MultiNodeHomogeneous'],
    'r': ['region_rodded:RoddedRegion',
          'region_unrodded:SingleNodeHomogeneous',
          'region_unrodded:MultiNodeHomogeneous'],
    'self.core': ['core:Core'],
    'self.coolant': ['material:Material'], 'self.duct': ['material:Material'],
    'self.gap_coolant': ['material:Material'],
    'self.pin_model': ['pin_model:PinModel'],
    'self._rr_equiv': ['region_unrodded:_RREquivalent'],
    'self.subchannel': ['subchannel:Subchannel'],
    'self.power': ['power:AssemblyPower'],
    'rr': ['region_rodded:RoddedRegion'],
    'bundle': ['region_rodded:RoddedRegion'],
    'self.rodded': ['region_rodded:RoddedRegion'],
}


class Resolver:
    def __init__(self, repo):
        self.repo = repo
        self._by_method = {}
        for f in repo.all_funcs():
            if f.cls is not None and f.outer is None:
                self._by_method.setdefault(f.name, []).append(f)
        self.stats = {'resolved': 0, 'by_name': 0, 'external': 0,
                      'unresolved': 0}

    def _cls(self, spec):
        m, c = spec.split(':')
        mod = self.repo.modules.get(PKG + '.' + m)
        return mod.classes.get(c) if mod else None

    def callees(self, fi, call, _depth=0):
        """List of FuncInfo the call may invoke (package-internal); [] if
        external or unknown.  Second value: how it was resolved."""
        repo = self.repo
        f = call.func
        mod = fi.mod
        # plain name
        if isinstance(f, ast.Name):
            # nested function of the same outer
            for q, cand in mod.funcs.items():
                if cand.name == f.id and cand.outer is not None and (
                        cand.outer is fi or cand.outer is fi.outer):
                    return [cand], 'nested'
            if f.id in mod.funcs and mod.funcs[f.id].cls is None:
                return [mod.funcs[f.id]], 'module'
            if f.id in mod.classes:
                return self._ctor(mod.classes[f.id]), 'ctor'
            tgt = mod.imports.get(f.id)
            if tgt:
                mn, _, nm = tgt.rpartition('.')
                m = repo.modules.get(mn)
                if m:
                    if nm in m.funcs and m.funcs[nm].cls is None:
                        return [m.funcs[nm]], 'import'
                    if nm in m.classes:
                        return self._ctor(m.classes[nm]), 'ctor'
            return [], 'external'
        if not isinstance(f, ast.Attribute):
            return [], 'unresolved'
        name = f.attr
        recv = f.value
        rs = src(recv)
        # self.m(...)
        if rs == 'self' and fi.cls is not None:
            out = []
            m = repo.lookup_method(fi.cls, name)
            if m is not None:
                out.append(m)
            for sc in repo.subclasses(fi.cls):
                if name in sc.methods and sc.methods[name] not in out:
                    out.append(sc.methods[name])
            if out:
                return out, 'self'
        # Base.__init__(self, ...) / Class.method(...)
        d = dotted(recv)
        if d is not None:
            c = repo.resolve_class(mod, d)
            if c is not None:
                m = repo.lookup_method(c, name)
                if m is not None:
                    return [m], 'class'
            # module function: alias.f / dassh.mod.f
            m = self._module(mod, d)
            if m is not None:
                if name in m.funcs and m.funcs[name].cls is None:
                    return [m.funcs[name]], 'modfunc'
                if name in m.classes:
                    return self._ctor(m.classes[name]), 'ctor'
                return [], 'external'
            if d.split('.')[0] in ('np', 'numpy', 'os', 'sys', 'math', 'copy',
                                   'logging', 'time', 'pickle', 'dill', 'pd',
                                   'plt', 'mpl', 'subprocess', 'shutil',
                                   'datetime', 'bisect', 're', 'json'):
                return [], 'external'
        # receiver table
        if rs in RECEIVER_CLASSES:
            out = []
            for spec in RECEIVER_CLASSES[rs]:
                c = self._cls(spec)
                if c is not None:
                    m = repo.lookup_method(c, name)
                    if m is not None and m not in out:
                        out.append(m)
            if out:
                return out, 'receiver'
        # local constructed in this function: x = Class(...)
        if isinstance(recv, ast.Name) and _depth < 2:
            from . import util as U
            for d_ in U.assigns_of(fi.node, recv.id):
                if isinstance(d_, ast.Assign) and isinstance(d_.value,
                                                            ast.Call):
                    cs, how = self.callees(fi, d_.value, _depth + 1)
                    for c in cs:
                        if c.name == '__init__' and c.cls is not None:
                            m = repo.lookup_method(c.cls, name)
                            if m is not None:
                                return [m], 'local-ctor'
        # by method name (class hierarchy analysis)
        cands = self._by_method.get(name, [])
        if cands:
            return list(cands), 'by-name'
        return [], 'external'

    def _ctor(self, ci):
        m = self.repo.lookup_method(ci, '__init__')
        return [m] if m is not None else []

    def _module(self, mod, d):
        parts = d.split('.')
        if parts[0] == PKG and d in self.repo.modules:
            return self.repo.modules[d]
        return self.repo.resolve_module(mod, d)

    def call_graph(self):
        """{caller.full: set(callee.full)} over all package functions."""
        g = {}
        for fi in self.repo.all_funcs():
            outs = set()
            for c in walk_no_nested(fi.node):
                if isinstance(c, ast.Call):
                    cs, how = self.callees(fi, c)
                    if how == 'by-name':
                        self.stats['by_name'] += 1
                    elif how == 'external':
                        self.stats['external'] += 1
                    elif how == 'unresolved':
                        self.stats['unresolved'] += 1
                    else:
                        self.stats['resolved'] += 1
                    for x in cs:
                        outs.add(x.full)
            # property reads: self.<prop> counts as a call
            if fi.cls is not None:
                for n in walk_no_nested(fi.node):
                    if isinstance(n, ast.Attribute) and isinstance(
                            n.value, ast.Name) and n.value.id == 'self':
                        m = self.repo.lookup_method(fi.cls, n.attr)
                        if m is not None and m.is_property:
                            outs.add(m.full)
            g[fi.full] = outs
        return g


def bind_args(call, callee):
    """{param name: arg expr} for a call of callee (self skipped for
    methods / constructors)."""
    params = list(callee.params)
    if callee.cls is not None and params and params[0] in ('self', 'cls'):
        f = call.func
        explicit_self = isinstance(f, ast.Attribute) and \
            dotted(f.value) is not None and \
            dotted(f.value).split('.')[-1][:1].isupper() and \
            callee.name == f.attr and call.args and \
            src(call.args[0]) == 'self'
        if not explicit_self:
            params = params[1:]
    out = {}
    for p, a in zip(params, call.args):
        if isinstance(a, ast.Starred):
            break
        out[p] = a
    for k in call.keywords:
        if k.arg is not None:
            out[k.arg] = k.value
    return out
