"""Reference-guided canonicalisation of the parsed modules.

Rules recognise source *forms* (a store, a guard, a loop header, a named
local).  Behaviour-preserving refactorings change forms without changing
behaviour: a lookup hoisted into a local, a helper extracted, the branches of
an if swapped under the negated condition, an index loop turned into
enumerate, `x += e` written `x = x + e`.  Before any rule runs, each module
is rewritten towards the forms recorded for it in dsa/reference.json (the
tree the rules were written against).  Every rewrite is one of a small set of
semantics-preserving program transformations:

  U  universal spellings: x = x op e -> x op= e (marked, so aliasing rules
     can tell); `k in d.keys()` -> `k in d`; a.sum()/max()/min() ->
     np.sum/max/min(a); range(0, n) -> range(n)
  H  inline a function that the reference does not know (an extracted
     helper) at its call sites in the module: straight-line body, at most
     one return, at the end
  I  orientation of if/else: swap the branches under the negated test when
     the reference has the negation; turn `if c: <jump>` + rest into if/else
     (and back) when the reference has that shape
  L  loop headers: enumerate(S) / direct iteration / .items() / .values()
     back to the recorded `for i in range(len(S))` / `for k in D` form,
     substituting the element variable by the subscript
  T  inline temporaries the reference does not know (single assignment,
     operands not re-bound in between), then rename the remaining locals and
     parameters back to the recorded names (pairing by recorded definition
     text first, by order of first binding second); a name is only ever
     renamed to one unused in the function

The purity assumptions are the usual ones for these refactorings (attribute
and subscript reads have no side effects).  What was done is returned and put
into the evidence; with DSA_NO_CANON=1 nothing is rewritten.
"""
import ast
import copy
import json
import os

_REF = None
VERIF = os.path.dirname(os.path.dirname(os.path.abspath(__file__)))


def _n(node):
    return ' '.join(ast.unparse(node).split())


# ---------------------------------------------------------------------------
# universal spellings

class _Universal(ast.NodeTransformer):
    def visit_Assign(self, node):
        self.generic_visit(node)
        if len(node.targets) == 1 and isinstance(
                node.targets[0], (ast.Name, ast.Subscript, ast.Attribute)) \
                and isinstance(node.value, ast.BinOp) and isinstance(
                    node.value.op, (ast.Add, ast.Sub, ast.Mult, ast.Div)):
            t = _n(node.targets[0])
            v = node.value
            rhs = None
            if _n(v.left) == t:
                rhs = v.right
            elif isinstance(v.op, (ast.Add, ast.Mult)) and _n(v.right) == t \
                    and not isinstance(v.left, (ast.List, ast.Constant)):
                rhs = v.left
            if rhs is not None:
                tgt = node.targets[0]
                new = ast.AugAssign(target=tgt, op=v.op, value=rhs)
                new._was_assign = True
                return ast.copy_location(new, node)
        return node

    def visit_Expr(self, node):
        self.generic_visit(node)
        v = node.value
        if isinstance(v, ast.Call) and isinstance(v.func, ast.Attribute) and \
                v.func.attr == 'extend' and len(v.args) == 1 and \
                not v.keywords and isinstance(
                    v.func.value, (ast.Name, ast.Subscript, ast.Attribute)):
            tgt = v.func.value
            tgt.ctx = ast.Store()
            new = ast.AugAssign(target=tgt, op=ast.Add(), value=v.args[0])
            return ast.copy_location(new, node)
        return node

    def visit_Compare(self, node):
        self.generic_visit(node)
        if len(node.ops) == 1 and isinstance(node.ops[0], (ast.In, ast.NotIn)):
            c = node.comparators[0]
            if isinstance(c, ast.Call) and isinstance(c.func, ast.Attribute) \
                    and c.func.attr == 'keys' and not c.args:
                node.comparators[0] = c.func.value
        return node

    def visit_For(self, node):
        self.generic_visit(node)
        if isinstance(node.iter, ast.Tuple):
            node.iter = ast.copy_location(ast.List(
                elts=node.iter.elts, ctx=ast.Load()), node.iter)
        it = node.iter
        if isinstance(it, ast.Call) and isinstance(it.func, ast.Attribute) \
                and it.func.attr == 'keys' and not it.args:
            node.iter = it.func.value
        return node

    def visit_Call(self, node):
        self.generic_visit(node)
        f = node.func
        if isinstance(f, ast.Attribute) and f.attr in ('sum', 'max', 'min'):
            root = f.value
            while isinstance(root, (ast.Attribute, ast.Subscript, ast.Call)):
                root = root.func if isinstance(root, ast.Call) else root.value
            rootname = root.id if isinstance(root, ast.Name) else ''
            if rootname not in ('np', 'numpy', 'math', 'builtins') or \
                    isinstance(f.value, (ast.Subscript, ast.Call)) and \
                    rootname not in ('math', 'builtins') and not (
                        isinstance(f.value, ast.Attribute)):
                new = ast.Call(func=ast.Attribute(value=ast.Name(
                    id='np', ctx=ast.Load()), attr=f.attr, ctx=ast.Load()),
                    args=[f.value] + node.args, keywords=node.keywords)
                return ast.copy_location(new, node)
        if isinstance(f, ast.Name) and f.id == 'range' and \
                len(node.args) == 2 and isinstance(
                    node.args[0], ast.Constant) and node.args[0].value == 0:
            node.args = [node.args[1]]
        # range(n - 1, -1, -1)  ->  reversed(range(n))
        if isinstance(f, ast.Name) and f.id == 'range' and \
                len(node.args) == 3 and not node.keywords:
            a0, a1, a2 = node.args

            def m1(x):
                return (isinstance(x, ast.UnaryOp) and isinstance(
                    x.op, ast.USub) and isinstance(x.operand, ast.Constant)
                    and x.operand.value == 1) or (isinstance(
                        x, ast.Constant) and x.value == -1)
            if m1(a1) and m1(a2) and isinstance(a0, ast.BinOp) and \
                    isinstance(a0.op, ast.Sub) and isinstance(
                        a0.right, ast.Constant) and a0.right.value == 1:
                inner = ast.Call(func=ast.Name(id='range', ctx=ast.Load()),
                                 args=[a0.left], keywords=[])
                new = ast.Call(func=ast.Name(id='reversed', ctx=ast.Load()),
                               args=[inner], keywords=[])
                return ast.copy_location(new, node)
        return node


class _DictCalls(ast.NodeTransformer):
    """`dict(k1=v1, k2=v2)` -> `{'k1': v1, 'k2': v2}` (same keys, same values,
    same evaluation order); only in a module that never binds the name
    `dict` (see `_binds_name`), no positional argument, no `**`."""

    def visit_Call(self, node):
        self.generic_visit(node)
        if isinstance(node.func, ast.Name) and node.func.id == 'dict' and \
                not node.args and node.keywords and all(
                    k.arg is not None for k in node.keywords):
            new = ast.Dict(keys=[ast.Constant(value=k.arg)
                                 for k in node.keywords],
                           values=[k.value for k in node.keywords])
            for x in new.keys:
                ast.copy_location(x, node)
            return ast.copy_location(new, node)
        return node


def _binds_name(tree, name):
    """The module binds `name` somewhere (assignment, parameter, def / class,
    import, loop / with / except target, global), so it may not denote the
    builtin."""
    for x in ast.walk(tree):
        if isinstance(x, ast.Name) and x.id == name and not isinstance(
                x.ctx, ast.Load):
            return True
        if isinstance(x, ast.arg) and x.arg == name:
            return True
        if isinstance(x, (ast.FunctionDef, ast.AsyncFunctionDef,
                          ast.ClassDef)) and x.name == name:
            return True
        if isinstance(x, ast.alias) and (x.asname or x.name).split(
                '.')[0] in (name, '*'):
            return True
        if isinstance(x, ast.ExceptHandler) and x.name == name:
            return True
        if isinstance(x, (ast.Global, ast.Nonlocal)) and name in x.names:
            return True
    return False


# ---------------------------------------------------------------------------
# getattr / setattr with a constant attribute name

def _plain_attr_name(c):
    import keyword
    return isinstance(c, ast.Constant) and isinstance(c.value, str) and \
        c.value.isidentifier() and not keyword.iskeyword(c.value) and not (
            c.value.startswith('__') and not c.value.endswith('__'))


def _plain_receiver(e):
    """A name or a chain of attribute reads on a name (pure, repeatable)."""
    while isinstance(e, ast.Attribute):
        e = e.value
    return isinstance(e, ast.Name)


class _ConstAttr(ast.NodeTransformer):
    """getattr(X, 'a') -> X.a;  the statement setattr(X, 'a', V) -> X.a = V.
    The name is a literal identifier (not a private name `__a`, which the
    attribute spelling would mangle inside a class), X is a name / attribute
    chain (so evaluating it after V instead of before makes no difference),
    no default argument, no keywords / starred arguments."""

    def __init__(self):
        self.n = 0

    @staticmethod
    def _args_ok(call, n):
        return isinstance(call.func, ast.Name) and len(call.args) == n and \
            not call.keywords and not any(isinstance(a, ast.Starred)
                                          for a in call.args) and \
            _plain_attr_name(call.args[1]) and _plain_receiver(call.args[0])

    def visit_Call(self, node):
        self.generic_visit(node)
        if isinstance(node.func, ast.Name) and node.func.id == 'getattr' and \
                self._args_ok(node, 2):
            self.n += 1
            return ast.copy_location(ast.Attribute(
                value=node.args[0], attr=node.args[1].value, ctx=ast.Load()),
                node)
        return node

    def visit_Expr(self, node):
        self.generic_visit(node)
        v = node.value
        if isinstance(v, ast.Call) and isinstance(v.func, ast.Name) and \
                v.func.id == 'setattr' and self._args_ok(v, 3):
            self.n += 1
            tgt = ast.copy_location(ast.Attribute(
                value=v.args[0], attr=v.args[1].value, ctx=ast.Store()), v)
            return ast.copy_location(ast.Assign(targets=[tgt],
                                                value=v.args[2]), node)
        return node


def _const_attr_access(node, log, q):
    # not when the function re-binds the builtin names
    if _names(node, ast.Store) & {'getattr', 'setattr'}:
        return
    t = _ConstAttr()
    t.visit(node)
    if t.n:
        log.append('%s: %d getattr/setattr call(s) with a literal attribute '
                   'name written as attribute access' % (q, t.n))
        ast.fix_missing_locations(node)



# ---------------------------------------------------------------------------
# keyword arguments -> positional (package functions with a unique name)

_SIGS = None


def _signatures(root):
    """{function name: parameter list (without self/cls)} for names defined
    exactly once with that parameter list in the package."""
    global _SIGS
    if _SIGS is not None and _SIGS[0] == root:
        return _SIGS[1]
    table = {}
    for dp, dn, fns in os.walk(os.path.join(root, 'dassh')):
        for f in fns:
            if not f.endswith('.py'):
                continue
            try:
                with open(os.path.join(dp, f)) as fh:
                    t = ast.parse(fh.read())
            except (OSError, SyntaxError):
                continue
            for n in ast.walk(t):
                if isinstance(n, (ast.FunctionDef, ast.AsyncFunctionDef)):
                    a = n.args
                    if a.vararg or a.kwarg or a.kwonlyargs:
                        ps = None
                    else:
                        ps = [x.arg for x in a.posonlyargs + a.args]
                        if ps and ps[0] in ('self', 'cls'):
                            ps = ps[1:]
                        ps = tuple(ps)
                    table.setdefault(n.name, set()).add(ps)
    sigs = {k: list(next(iter(v))) for k, v in table.items()
            if len(v) == 1 and next(iter(v)) is not None}
    _SIGS = (root, sigs)
    return sigs


_RETS = None


def _return_arities(root):
    """{function name: n} for names whose every definition in the package
    returns, at every return statement, a tuple display of exactly n
    elements (n >= 2)."""
    global _RETS
    if _RETS is not None and _RETS[0] == root:
        return _RETS[1]
    table = {}
    for dp, dn, fns in os.walk(os.path.join(root, 'dassh')):
        for f in fns:
            if not f.endswith('.py'):
                continue
            try:
                with open(os.path.join(dp, f)) as fh:
                    t = ast.parse(fh.read())
            except (OSError, SyntaxError):
                continue
            for n in ast.walk(t):
                if isinstance(n, (ast.FunctionDef, ast.AsyncFunctionDef)):
                    ar = set()
                    gen = False
                    for x in _own_nodes(n):
                        if isinstance(x, ast.Return):
                            v = x.value
                            ar.add(len(v.elts) if isinstance(v, ast.Tuple)
                                   and not any(isinstance(e, ast.Starred)
                                               for e in v.elts) else None)
                        elif isinstance(x, (ast.Yield, ast.YieldFrom)):
                            gen = True
                    table.setdefault(n.name, []).append(
                        None if gen or len(ar) != 1 else next(iter(ar)))
    rets = {k: v[0] for k, v in table.items()
            if len(set(v)) == 1 and v[0] is not None and v[0] >= 2}
    _RETS = (root, rets)
    return rets


class _KwToPos(ast.NodeTransformer):
    def __init__(self, sigs):
        self.sigs = sigs

    def visit_Call(self, node):
        self.generic_visit(node)
        if not node.keywords or any(k.arg is None for k in node.keywords) \
                or any(isinstance(a, ast.Starred) for a in node.args):
            return node
        f = node.func
        name = f.id if isinstance(f, ast.Name) else (
            f.attr if isinstance(f, ast.Attribute) else None)
        ps = self.sigs.get(name)
        if not ps or name.startswith('__'):
            return node
        npos = len(node.args)
        # Class.method(self, ...) style: the receiver is passed explicitly
        kw = {k.arg: k.value for k in node.keywords}
        if not set(kw) <= set(ps[npos:]):
            return node
        args = list(node.args)
        rest = []
        for p_ in ps[npos:]:
            if p_ in kw and not rest:
                args.append(kw.pop(p_))
            else:
                rest.append(p_)
        node.args = args
        node.keywords = [k for k in node.keywords if k.arg in kw]
        return node


class _SplitTupleAssign(ast.NodeTransformer):
    """a, b = x, y  ->  a = x; b = y.

    Universal form (no reference): only when no value reads any target.
    Reference-guided form (`rf` given, used per function on the way to the
    recorded form): all values are evaluated first, then the names are bound
    left to right, so the sequence t1 = v1; t2 = v2; ... is the same program
    iff no value reads a name bound *earlier* in the sequence (a later target
    may be read: `old, x = x, f(..)`) and no name is bound twice.  A tuple
    assignment the reference itself has (same shape modulo local names) is
    left alone."""

    def __init__(self, rf=None, fn=None, log=None, q=None):
        self.rf = rf
        self.log = log
        self.q = q
        self.ref_shapes = set()
        self.names = set()
        if rf is not None:
            self.names = set(rf.get('locals', [])) | set(local_order(fn)[1])
            self.ref_unpacked = set()
            n_ref = 0
            for nm, ds in rf.get('defs', {}).items():
                for d in ds:
                    if d.startswith('unpack'):
                        self.ref_unpacked.add(nm)
                        self.ref_shapes.add(_shape(d.split(':', 1)[1],
                                                   self.names))
                        if d.startswith('unpack0:('):
                            n_ref += 1
            n_cur = sum(1 for x in _own_nodes(fn) if self._is_form(x))
            # only an *excess* of tuple assignments over the recorded form
            # is undone
            self.excess = n_cur > n_ref

    @staticmethod
    def _is_form(st):
        return isinstance(st, ast.Assign) and len(st.targets) == 1 and \
            isinstance(st.targets[0], ast.Tuple) and isinstance(
                st.value, ast.Tuple) and \
            len(st.targets[0].elts) == len(st.value.elts) and all(
                isinstance(t, ast.Name) for t in st.targets[0].elts)

    def _can_split(self, st):
        tl = [t.id for t in st.targets[0].elts]
        reads = [{x.id for x in ast.walk(v) if isinstance(x, ast.Name)}
                 for v in st.value.elts]
        if not any(r & set(tl) for r in reads):
            return 'strict'
        if self.rf is None or len(set(tl)) != len(tl):
            return None
        if not self.excess or set(tl) & self.ref_unpacked or \
                _shape(_n(st.value), self.names) in self.ref_shapes:
            return None
        if any(reads[j] & set(tl[:j]) for j in range(len(tl))):
            return None
        return 'ordered'

    def _split(self, stmts):
        out = []
        for st in stmts:
            if self._is_form(st):
                how = self._can_split(st)
                if how:
                    if how == 'ordered' and self.log is not None:
                        self.log.append(
                            '%s: `%s` split into sequential assignments (no '
                            'value reads an earlier target)'
                            % (self.q, _n(st)))
                    for t, v in zip(st.targets[0].elts, st.value.elts):
                        out.append(ast.copy_location(ast.Assign(
                            targets=[t], value=v), st))
                    continue
            out.append(st)
        return out

    def generic_visit(self, node):
        super().generic_visit(node)
        for f in ('body', 'orelse', 'finalbody'):
            b = getattr(node, f, None)
            if isinstance(b, list) and b and isinstance(b[0], ast.stmt):
                setattr(node, f, self._split(b))
        return node


# ---------------------------------------------------------------------------
# helpers shared by reference generation and rewriting

def qualfuncs(tree):
    out = []

    def rec(body, prefix, cls):
        for st in body:
            if isinstance(st, (ast.FunctionDef, ast.AsyncFunctionDef)):
                q = prefix + st.name
                if any(isinstance(d, ast.Attribute) and d.attr == 'setter'
                       for d in st.decorator_list):
                    q += '.setter'
                out.append((q, st, cls, body))
                rec(st.body, q + '.', None)
            elif isinstance(st, ast.ClassDef):
                rec(st.body, prefix + st.name + '.', st)
            elif isinstance(st, (ast.If, ast.Try, ast.For, ast.While,
                                 ast.With)):
                rec([s for s in ast.iter_child_nodes(st)
                     if isinstance(s, ast.stmt)], prefix, cls)
    rec(tree.body, '', None)
    return out


def _own_nodes(fn):
    """Nodes of a function excluding nested function / class bodies."""
    stack = list(ast.iter_child_nodes(fn))
    while stack:
        n = stack.pop()
        if isinstance(n, (ast.FunctionDef, ast.AsyncFunctionDef,
                          ast.ClassDef)):
            continue
        yield n
        stack.extend(ast.iter_child_nodes(n))


def local_order(fn):
    a = fn.args
    params = [x.arg for x in a.posonlyargs + a.args + a.kwonlyargs]
    if a.vararg:
        params.append(a.vararg.arg)
    if a.kwarg:
        params.append(a.kwarg.arg)
    seen, out = set(params), []
    stores = []

    def visit(n):
        for ch in ast.iter_child_nodes(n):
            if isinstance(ch, (ast.FunctionDef, ast.AsyncFunctionDef,
                               ast.ClassDef, ast.Lambda, ast.ListComp,
                               ast.SetComp, ast.DictComp, ast.GeneratorExp)):
                continue
            if isinstance(ch, ast.Name) and isinstance(ch.ctx, ast.Store):
                stores.append(ch)
            visit(ch)
    visit(fn)
    stores.sort(key=lambda n: (n.lineno, n.col_offset))
    for n in stores:
        if n.id not in seen:
            seen.add(n.id)
            out.append(n.id)
    return params, out


def _defs_of(fn):
    """{local: [definition texts]} -- RHS of plain assignments, 'for:<iter>'
    for loop targets, 'with' for with-items."""
    d = {}
    for n in _own_nodes(fn):
        if isinstance(n, ast.Assign):
            for t in n.targets:
                if isinstance(t, ast.Name):
                    d.setdefault(t.id, []).append(_n(n.value))
                elif isinstance(t, (ast.Tuple, ast.List)):
                    for i, e in enumerate(t.elts):
                        if isinstance(e, ast.Name):
                            d.setdefault(e.id, []).append(
                                'unpack%d:%s' % (i, _n(n.value)))
        elif isinstance(n, ast.For):
            for i, e in enumerate(ast.walk(n.target)):
                if isinstance(e, ast.Name):
                    d.setdefault(e.id, []).append('for%d:%s' % (i,
                                                                _n(n.iter)))
        elif isinstance(n, ast.AugAssign) and isinstance(n.target, ast.Name):
            d.setdefault(n.target.id, []).append('aug:' + _n(n.value))
    return d


def _jump(stmts):
    return bool(stmts) and isinstance(stmts[-1], (ast.Return, ast.Continue,
                                                  ast.Break, ast.Raise))


def describe(fn):
    params, locs = local_order(fn)
    tests, loops = [], []
    for st, _blk, _i in _ifs_in_order(fn):
        tests.append([_n(st.test), bool(st.orelse), _jump(st.body)])
    for n in sorted([x for x in _own_nodes(fn) if isinstance(x, ast.For)],
                    key=lambda x: (x.lineno, x.col_offset)):
        loops.append([_n(n.target), _n(n.iter)])
    calls = {}
    for n in _own_nodes(fn):
        if isinstance(n, ast.Call):
            t = _n(n)
            if len(t) < 200:
                calls[t] = calls.get(t, 0) + 1
    stores = sorted({_n(t) for n in _own_nodes(fn)
                     if isinstance(n, (ast.Assign, ast.AugAssign))
                     for t in (n.targets if isinstance(n, ast.Assign)
                               else [n.target])
                     if isinstance(t, (ast.Subscript, ast.Attribute))})
    return {'params': params, 'locals': locs, 'defs': _defs_of(fn),
            'tests': tests, 'loops': loops, 'calls': calls,
            'stores': stores}


def build_reference(repo_root):
    out = {}
    root = os.path.join(repo_root, 'dassh')
    for dp, dn, fns in os.walk(root):
        for f in sorted(fns):
            if not f.endswith('.py'):
                continue
            p = os.path.join(dp, f)
            rel = os.path.relpath(p, repo_root)
            mod = rel[:-3].replace('/', '.')
            if mod.endswith('.__init__'):
                mod = mod[:-9]
            with open(p) as fh:
                text = fh.read()
            tree = ast.parse(text)
            tree = ast.fix_missing_locations(_Universal().visit(tree))
            _KwToPos(_signatures(repo_root)).visit(tree)
            _SplitTupleAssign().visit(tree)
            ast.fix_missing_locations(tree)
            if os.environ.get('DSA_INLINE_ALL'):
                _inline_all_lookups(tree)
                ast.fix_missing_locations(tree)
            import hashlib
            t = {'__sha1__': hashlib.sha1(text.encode()).hexdigest()}
            for q, node, cls, body in qualfuncs(tree):
                t[q] = describe(node)
            out[mod] = t
    return out


def load_reference():
    global _REF
    if _REF is None:
        try:
            with open(os.path.join(VERIF, 'dsa', 'reference.json')) as fh:
                _REF = json.load(fh)
        except OSError:
            _REF = {}
    return _REF


# ---------------------------------------------------------------------------
# negation of tests

_NEG = {ast.Eq: ast.NotEq, ast.NotEq: ast.Eq, ast.Lt: ast.GtE,
        ast.GtE: ast.Lt, ast.Gt: ast.LtE, ast.LtE: ast.Gt, ast.Is: ast.IsNot,
        ast.IsNot: ast.Is, ast.In: ast.NotIn, ast.NotIn: ast.In}


def negations(test):
    """Source texts equivalent to `not test` (a few spellings)."""
    out = set()
    if isinstance(test, ast.UnaryOp) and isinstance(test.op, ast.Not):
        out.add(_n(test.operand))
        return out
    out.add('not ' + _n(test) if isinstance(test, (
        ast.Name, ast.Attribute, ast.Subscript, ast.Call)) else
        'not (%s)' % _n(test))
    out.add(_n(ast.UnaryOp(op=ast.Not(), operand=test)))
    if isinstance(test, ast.Compare) and len(test.ops) == 1 and \
            type(test.ops[0]) in _NEG:
        c = ast.Compare(left=test.left, ops=[_NEG[type(test.ops[0])]()],
                        comparators=test.comparators)
        out.add(_n(c))
    return out


def negate(test):
    if isinstance(test, ast.UnaryOp) and isinstance(test.op, ast.Not):
        return test.operand
    if isinstance(test, ast.Compare) and len(test.ops) == 1 and \
            type(test.ops[0]) in _NEG:
        return ast.copy_location(ast.Compare(
            left=test.left, ops=[_NEG[type(test.ops[0])]()],
            comparators=test.comparators), test)
    return ast.copy_location(ast.UnaryOp(op=ast.Not(), operand=test), test)


# ---------------------------------------------------------------------------
# substitution helpers

class _Subst(ast.NodeTransformer):
    """Replace loads of given names by expressions (deep-copied)."""

    def __init__(self, mapping):
        self.mapping = mapping

    def visit_Name(self, node):
        if node.id in self.mapping and isinstance(node.ctx, ast.Load):
            new = copy.deepcopy(self.mapping[node.id])
            return ast.copy_location(new, node)
        return node


def _names(node, ctx=None):
    return {x.id for x in ast.walk(node) if isinstance(x, ast.Name)
            and (ctx is None or isinstance(x.ctx, ctx))}


def _blocks(fn):
    """All statement lists inside a function (not nested defs)."""
    out = []

    def rec(stmts):
        out.append(stmts)
        for st in stmts:
            if isinstance(st, (ast.FunctionDef, ast.AsyncFunctionDef,
                               ast.ClassDef)):
                continue
            for f in ('body', 'orelse', 'finalbody'):
                b = getattr(st, f, None)
                if isinstance(b, list) and b and isinstance(b[0], ast.stmt):
                    rec(b)
            if isinstance(st, ast.Try):
                for h in st.handlers:
                    rec(h.body)
    rec(fn.body)
    return out


# ---------------------------------------------------------------------------
# H: inline unknown helpers

def _always_returns(stmts):
    if not stmts:
        return False
    last = stmts[-1]
    if isinstance(last, (ast.Return, ast.Raise)):
        return True
    if isinstance(last, ast.If) and last.orelse:
        return _always_returns(last.body) and _always_returns(last.orelse)
    return False


def _single_exit(stmts):
    """Rewrite a statement list whose only non-final returns are in
    if-branches into one where every return is the last statement of its
    branch (`if c: return a` + rest -> if/else); None if unsupported."""
    out = []
    for k, st in enumerate(stmts):
        if isinstance(st, ast.Return):
            out.append(st)
            return out
        if isinstance(st, ast.If):
            has_ret = any(isinstance(x, ast.Return) for x in ast.walk(st))
            if has_ret:
                rest = stmts[k + 1:]
                body = _single_exit(st.body)
                if body is None:
                    return None
                if _always_returns(st.body):
                    orelse = _single_exit(list(st.orelse) + rest)
                    if orelse is None:
                        return None
                    new = ast.If(test=st.test, body=body, orelse=orelse)
                    out.append(ast.copy_location(new, st))
                    return out
                if st.orelse and _always_returns(st.orelse):
                    orelse = _single_exit(st.orelse)
                    body2 = _single_exit(list(st.body) + rest)
                    if orelse is None or body2 is None:
                        return None
                    new = ast.If(test=st.test, body=body2, orelse=orelse)
                    out.append(ast.copy_location(new, st))
                    return out
                return None
        if any(isinstance(x, ast.Return) for x in ast.walk(st)):
            return None
        out.append(st)
    return out


def _drop_tail_returns(stmts):
    """Statement list in single-exit form (`_single_exit`) with the `return`
    that ends a branch removed (`pass` when the branch had nothing else);
    only meaningful where the returned value is discarded."""
    out = list(stmts)
    if out and isinstance(out[-1], ast.Return):
        out.pop()
    elif out and isinstance(out[-1], ast.If):
        last = out[-1]
        last.body = _drop_tail_returns(last.body)
        if last.orelse:
            last.orelse = _drop_tail_returns(last.orelse)
            if len(last.orelse) == 1 and isinstance(last.orelse[0], ast.Pass):
                last.orelse = []
            elif len(last.body) == 1 and isinstance(last.body[0], ast.Pass):
                # `if c: pass else: S`  ->  `if not c: S`
                last.test = _negate_exact(last.test)
                last.body, last.orelse = last.orelse, []
    return out or [ast.Pass()]


def _simple_helper(fn):
    body = [s for s in fn.body if not (isinstance(s, ast.Expr) and isinstance(
        s.value, ast.Constant))]
    if not body or len(body) > 25:
        return None
    rets = [n for n in _own_nodes(fn) if isinstance(n, ast.Return)]
    if len(rets) > 1:
        body = _single_exit(copy.deepcopy(body))
        if body is None:
            return None
        fn._multi_return = True
    elif rets and rets[0] is not body[-1]:
        return None
    if any(isinstance(n, (ast.Yield, ast.YieldFrom, ast.Global, ast.Nonlocal,
                          ast.FunctionDef, ast.Lambda))
           for n in _own_nodes(fn)):
        return None
    if fn.args.vararg or fn.args.kwarg:
        return None
    return body


def _mutated_through(stmts, names):
    """names (of `names`) that are the root of a subscript/attribute store,
    deletion or augmented assignment target, or the receiver root of a
    method-call statement, in stmts."""
    def root(e):
        while isinstance(e, (ast.Subscript, ast.Attribute, ast.Starred)):
            e = e.value
        return e.id if isinstance(e, ast.Name) else None
    out = set()
    for s_ in stmts:
        for x in ast.walk(s_):
            tg = []
            if isinstance(x, ast.Assign):
                tg = list(x.targets)
            elif isinstance(x, (ast.AugAssign, ast.AnnAssign, ast.For)):
                tg = [x.target]
            elif isinstance(x, ast.Delete):
                tg = list(x.targets)
            elif isinstance(x, ast.Expr) and isinstance(
                    x.value, ast.Call) and isinstance(x.value.func,
                                                      ast.Attribute):
                tg = [x.value.func]
            while tg:
                t = tg.pop()
                if isinstance(t, (ast.Tuple, ast.List)):
                    tg.extend(t.elts)
                elif isinstance(t, (ast.Subscript, ast.Attribute,
                                    ast.Starred)):
                    r = root(t)
                    if r in names:
                        out.add(r)
    # ... or through a local ALIAS: a local bound to the name itself or to a
    # subscript / attribute of it (`row = m[-1, :]`, `t = m.T` -- possibly a
    # view on the same object) that is then the target of an augmented
    # assignment (in place for arrays and lists), stored through, or the
    # receiver of a method-call statement
    alias = {}
    grew = True
    while grew:
        grew = False
        for s_ in stmts:
            for x in ast.walk(s_):
                if not (isinstance(x, ast.Assign) and len(x.targets) == 1):
                    continue
                t, v = x.targets[0], x.value
                prs = [(t, v)]
                if isinstance(t, (ast.Tuple, ast.List)) and isinstance(
                        v, (ast.Tuple, ast.List)) and \
                        len(t.elts) == len(v.elts):
                    prs = list(zip(t.elts, v.elts))
                for t_, v_ in prs:
                    if not isinstance(t_, ast.Name) or t_.id in alias:
                        continue
                    r = root(v_)
                    r = alias.get(r, r)
                    if r in names and isinstance(v_, (
                            ast.Name, ast.Subscript, ast.Attribute)):
                        alias[t_.id] = r
                        grew = True
    if alias:
        for s_ in stmts:
            for x in ast.walk(s_):
                if isinstance(x, ast.AugAssign) and isinstance(
                        x.target, ast.Name) and x.target.id in alias:
                    out.add(alias[x.target.id])
        for a_ in _mutated_through(stmts, set(alias) - set(names)):
            out.add(alias[a_])
    return out


def _mutated_through_name(fn, name):
    """`name` is re-bound by an augmented assignment or stored into
    (name[...] = / name.attr = / del name[...]) somewhere in the function."""
    for n in _own_nodes(fn):
        r_ = None
        if isinstance(n, (ast.Subscript, ast.Attribute)) and isinstance(
                getattr(n, 'ctx', None), (ast.Store, ast.Del)):
            r_ = n.value
        elif isinstance(n, ast.AugAssign):
            r_ = n.target
        while isinstance(r_, (ast.Subscript, ast.Attribute)):
            r_ = r_.value
        if isinstance(r_, ast.Name) and r_.id == name:
            return True
    return False


def _unpack_to_subscripts(fn, rf, log, q):
    """a, b, c = S  ->  a = S[0]; b = S[1]; c = S[2]  (then inlined as hoisted
    look-ups) for unpacking targets the reference does not know.  Unpacking
    and indexing agree on sequences; S is known to be one when
      * it is a parameter / local that the recorded function indexes with
        integer constants (same parameter position, same local name) and that
        is not stored into or augmented anywhere in the function, or
      * it is the result of +, * or / (numbers, sequences and arrays only; a
        mapping, set or iterator is not closed under these) whose text is the
        single recorded definition of an unused recorded local R: R = S is
        re-introduced and indexed."""
    params, locs = local_order(fn)
    ref_locs = rf.get('locals', [])
    rp = rf.get('params', [])
    known = set(ref_locs) | set(rp)
    rtext = ' ; '.join([d for ds in rf.get('defs', {}).values() for d in ds]
                       + list(rf.get('calls', {}))
                       + [t[0] for t in rf.get('tests', [])])
    done = False
    for blk in _blocks(fn):
        i = 0
        while i < len(blk):
            st = blk[i]
            i += 1
            if not (isinstance(st, ast.Assign) and len(st.targets) == 1 and
                    isinstance(st.targets[0], ast.Tuple) and
                    len(st.targets[0].elts) >= 2 and all(
                        isinstance(t, ast.Name)
                        for t in st.targets[0].elts)):
                continue
            tgts = [t.id for t in st.targets[0].elts]
            if len(set(tgts)) != len(tgts) or any(t in known for t in tgts):
                continue
            if any(sum(1 for x in _own_nodes(fn) if isinstance(x, ast.Name)
                       and x.id == t and isinstance(x.ctx, (ast.Store,
                                                            ast.Del))) != 1
                   for t in tgts):
                continue
            val, pre = st.value, []
            if isinstance(val, ast.Name):
                v = val.id
                if v in tgts:
                    continue
                rname = v
                if v in params:
                    if len(rp) != len(params):
                        continue
                    rname = rp[params.index(v)]
                elif v not in ref_locs:
                    continue
                if not _re.search(r'(?<![\w.])%s\[\d+\]' % _re.escape(rname),
                                  rtext):
                    continue
                if _mutated_through_name(fn, v):
                    continue
                base = v
            elif isinstance(val, ast.BinOp) and isinstance(val.op, _SEQ_OPS):
                used = _names(fn) | set(params)
                cands = [r_ for r_ in ref_locs if r_ not in used and
                         rf.get('defs', {}).get(r_) == [_n(val)]]
                if len(cands) != 1 or (_names(val) & set(tgts)):
                    continue
                base = cands[0]
                pre = [ast.copy_location(ast.Assign(
                    targets=[ast.Name(id=base, ctx=ast.Store())], value=val),
                    st)]
                log.append('%s: local %s re-introduced for the unpacked `%s`'
                           % (q, base, _n(val)))
            else:
                continue
            new = list(pre)
            for k, t in enumerate(tgts):
                new.append(ast.copy_location(ast.Assign(
                    targets=[ast.Name(id=t, ctx=ast.Store())],
                    value=ast.Subscript(
                        value=ast.Name(id=base, ctx=ast.Load()),
                        slice=ast.Constant(value=k), ctx=ast.Load())), st))
            blk[i - 1:i] = new
            i += len(new) - 1
            ast.fix_missing_locations(fn)
            log.append('%s: unpacking %s = %s -> subscripts of %s'
                       % (q, ', '.join(tgts), base, base))
            done = True
            for t in tgts:
                if _inline_temp(fn, t):
                    log.append('%s: hoisted lookup %s inlined' % (q, t))
            # the block may have shrunk: rescan it from the start
            i = 0
    if done:
        ast.fix_missing_locations(fn)


def _recorded_display_twin(rf, elts):
    """The reference records a local whose definition is a list / tuple
    display of exactly these elements: a current local with that display is
    the recorded local under another name (left to the pairing steps)."""
    txt = [_n(e) for e in elts]
    for nm_, ds_ in rf.get('defs', {}).items():
        for d_ in ds_:
            try:
                dn_ = ast.parse(d_, mode='eval').body
            except SyntaxError:
                continue
            if isinstance(dn_, (ast.List, ast.Tuple)) and \
                    [_n(e) for e in dn_.elts] == txt:
                return True
    return False


def _scalarise_tuple_locals(fn, rf, log, q):
    """A local the reference does not know that is only ever bound to tuple
    displays of one length n and only read as x[<int constant>] or as a whole
    is replaced by n scalar locals (tuples are immutable values, so no alias
    can observe the difference):
        x = (a, b, c)   ->  x_0 = a; x_1 = b; x_2 = c      (a, b, c do not
                                                            read x)
        x[1]            ->  x_1
        x               ->  (x_0, x_1, x_2)   ([..] as the argument of
                                               np.array / np.asarray)
    The scalars take the recorded names when a call that receives the whole
    tuple is recorded with three otherwise unused recorded locals in the same
    positions."""
    params, locs = local_order(fn)
    ref_locs = rf.get('locals', [])
    for x in [n for n in locs if n not in ref_locs]:
        own = [n for n in _own_nodes(fn) if isinstance(n, ast.Name)
               and n.id == x]
        if len(own) != sum(1 for n in ast.walk(fn) if isinstance(n, ast.Name)
                           and n.id == x):
            continue            # also used in a nested function
        if any(isinstance(n, ast.Lambda) and x in _names(n)
               for n in _own_nodes(fn)):
            continue
        if any(isinstance(n, (ast.Global, ast.Nonlocal)) and x in n.names
               for n in _own_nodes(fn)):
            continue
        stores = [n for n in own if not isinstance(n.ctx, ast.Load)]
        asg = []
        for blk in _blocks(fn):
            for st in blk:
                if isinstance(st, ast.Assign) and len(st.targets) == 1 and \
                        isinstance(st.targets[0], ast.Name) and \
                        st.targets[0].id == x:
                    asg.append((blk, st))
        if not asg or len(asg) != len(stores):
            continue
        if not all(isinstance(st.value, ast.Tuple) and not any(
                isinstance(e, ast.Starred) for e in st.value.elts)
                for _b, st in asg):
            continue
        n = len(asg[0][1].value.elts)
        if n < 2 or any(len(st.value.elts) != n for _b, st in asg):
            continue
        if any(x in _names(st.value) for _b, st in asg):
            continue
        if any(_recorded_display_twin(rf, st.value.elts) for _b, st in asg):
            continue
        tried = _in_try(fn)
        if any(id(st) in tried for _b, st in asg):
            continue
        loads = [m for m in own if isinstance(m.ctx, ast.Load)]
        if not loads:
            continue
        parent = {}
        for p_ in _own_nodes(fn):
            for ch in ast.iter_child_nodes(p_):
                parent[id(ch)] = p_
        elem, whole, ok = {}, [], True
        for m in loads:
            p_ = parent.get(id(m))
            if isinstance(p_, ast.Subscript) and p_.value is m:
                k = p_.slice
                if isinstance(k, ast.UnaryOp) and isinstance(
                        k.op, ast.USub) and isinstance(k.operand,
                                                       ast.Constant):
                    k = ast.Constant(value=-k.operand.value) if isinstance(
                        k.operand.value, int) else k
                if isinstance(p_.ctx, ast.Load) and isinstance(
                        k, ast.Constant) and type(k.value) is int and \
                        -n <= k.value < n:
                    elem[id(p_)] = k.value % n
                else:
                    ok = False
            elif isinstance(p_, ast.AugAssign) and p_.target is m:
                ok = False
            else:
                whole.append(m)
        if not ok:
            continue
        used = _names(fn) | set(params) | set(ref_locs)
        fresh = ['%s_%d' % (x, k) for k in range(n)]
        if any(f in used for f in fresh):
            continue
        whole_ids = {id(m) for m in whole}

        class SR(ast.NodeTransformer):
            def visit_Subscript(self, node):
                if id(node) in elem:
                    return ast.copy_location(ast.Name(
                        id=fresh[elem[id(node)]], ctx=ast.Load()), node)
                return self.generic_visit(node)

            def visit_Call(self, node):
                as_list = None
                if _n(node.func) in ('np.array', 'np.asarray', 'numpy.array',
                                     'numpy.asarray') and node.args and \
                        id(node.args[0]) in whole_ids:
                    as_list = node.args[0]
                self.generic_visit(node)
                if as_list is not None and isinstance(node.args[0],
                                                      ast.Tuple):
                    node.args[0] = ast.copy_location(ast.List(
                        elts=node.args[0].elts, ctx=ast.Load()),
                        node.args[0])
                return node

            def visit_Name(self, node):
                if id(node) in whole_ids:
                    return ast.copy_location(ast.Tuple(
                        elts=[ast.Name(id=f, ctx=ast.Load()) for f in fresh],
                        ctx=ast.Load()), node)
                return node
        for blk in _blocks(fn):
            k = 0
            while k < len(blk):
                st = blk[k]
                if any(st is a for _b, a in asg):
                    new = [ast.copy_location(ast.Assign(
                        targets=[ast.Name(id=f, ctx=ast.Store())], value=e),
                        st) for f, e in zip(fresh, st.value.elts)]
                    blk[k:k + 1] = new
                    k += len(new)
                    continue
                blk[k] = SR().visit(st)
                k += 1
        ast.fix_missing_locations(fn)
        log.append('%s: tuple local %s -> scalars %s' % (q, x,
                                                          ', '.join(fresh)))
        # recorded names from a recorded call that receives the whole tuple
        used = _names(fn) | set(params)
        for c in [c for c in _own_nodes(fn) if isinstance(c, ast.Call)]:
            t = _n(c)
            if not all(_re.search(r'(?<![\w.])%s(?!\w)' % _re.escape(f), t)
                       for f in fresh):
                continue
            pat = _re.escape(t)
            for f in fresh:
                pat = _re.sub(r'(?<![\w.])%s(?!\w)' % _re.escape(
                    _re.escape(f)), lambda m_: r'(\w+)', pat, count=1)
            if pat.count(r'(\w+)') != n:
                continue
            hits = [m_ for m_ in (_re.fullmatch(pat, rc)
                                  for rc in rf.get('calls', {})) if m_
                    and len(set(m_.groups())) == n and all(
                        r_ in ref_locs and r_ not in used
                        for r_ in m_.groups())]
            if len(hits) != 1:
                continue
            names = list(hits[0].groups())
            # groups come in textual order of the fresh names in the call
            order = sorted(range(n), key=lambda k_: _re.search(
                r'(?<![\w.])%s(?!\w)' % _re.escape(fresh[k_]), t).start())
            mapping = {fresh[k_]: names[j] for j, k_ in enumerate(order)}
            if len(set(names)) == n and all(
                    r_ in ref_locs and r_ not in used for r_ in names):
                _rename(fn, mapping)
                for c_, r_ in mapping.items():
                    log.append('%s: local %s -> %s (recorded argument of %s)'
                               % (q, c_, r_, _n(c.func)))
                break


def _read_once_unconditionally(body, name):
    """`name` is read exactly once in the statement list, and that read is
    evaluated exactly once whenever the list is entered: it belongs to a
    top-level statement (not to a nested block), precedes any jump, and does
    not sit under a short-circuit / conditional expression, a lambda, a
    comprehension or a while test."""
    total = sum(1 for s_ in body for x in ast.walk(s_)
                if isinstance(x, ast.Name) and x.id == name)
    if total != 1:
        return False
    for s_ in body:
        if isinstance(s_, (ast.While, ast.Try, ast.FunctionDef,
                           ast.AsyncFunctionDef, ast.ClassDef)):
            return False
        stack = [s_]
        while stack:
            n = stack.pop()
            if isinstance(n, ast.Name) and n.id == name:
                return True
            if isinstance(n, (ast.BoolOp, ast.IfExp, ast.Lambda,
                              ast.ListComp, ast.SetComp, ast.DictComp,
                              ast.GeneratorExp)):
                continue
            for fld, val in ast.iter_fields(n):
                if fld in ('body', 'orelse', 'finalbody', 'handlers') and \
                        isinstance(n, ast.stmt):
                    continue
                if isinstance(val, ast.AST):
                    stack.append(val)
                elif isinstance(val, list):
                    stack.extend(v for v in val if isinstance(v, ast.AST))
        if any(isinstance(x, (ast.Return, ast.Raise, ast.Break, ast.Continue))
               for x in ast.walk(s_)):
            return False
    return False


def _inline_helpers(tree, modname, ref, log):
    known = set(ref.get(modname, {})) - {'__sha1__'}
    if not known:
        return
    funcs = qualfuncs(tree)
    new = [(q, f, cls, body) for q, f, cls, body in funcs
           if q not in known and '.' not in q.replace(
               (cls.name + '.') if cls else '', '', 1)]
    # nested helper functions (closures) of a recorded function: `def h(..)`
    # directly in the body of the enclosing function, no decorators, not
    # recursive.  A closure reads the enclosing function's variables when it
    # is called, which is exactly when the inlined body reads them; it cannot
    # re-bind them (nonlocal is refused by _simple_helper) and its own locals
    # get fresh names.
    enclosing = {}
    byq = {q: f for q, f, cls, body in funcs}
    for q, f, cls, body in funcs:
        if q in known or cls is not None or '.' not in q:
            continue
        par = byq.get(q.rsplit('.', 1)[0])
        if par is None or q.rsplit('.', 1)[0] not in known or \
                not any(f is s_ for s_ in par.body) or body is not par.body \
                or f.decorator_list or f.name in _names(f):
            continue
        # the name is bound once (by the def) in the enclosing function
        if any(isinstance(x, ast.Name) and x.id == f.name and not isinstance(
                x.ctx, ast.Load) for x in ast.walk(par)) or \
                f.name in [a.arg for a in ast.walk(par.args)
                           if isinstance(a, ast.arg)] or \
                sum(1 for x in ast.walk(par) if isinstance(
                    x, (ast.FunctionDef, ast.AsyncFunctionDef, ast.ClassDef))
                    and x.name == f.name) != 1:
            continue
        enclosing[id(f)] = par
        new.append((q, f, cls, body))
    counter = [0]
    for q, hf, cls, container in new:
        hb = _simple_helper(hf)
        if hb is None:
            continue
        # a decorator other than staticmethod / classmethod changes what a
        # call does (memoisation, properties, registration): never inline
        if any(not (isinstance(d, ast.Name) and d.id in (
                'staticmethod', 'classmethod')) for d in hf.decorator_list):
            continue
        encl = enclosing.get(id(hf))
        is_method = cls is not None
        static = any(isinstance(d, ast.Name) and d.id in (
            'staticmethod', 'classmethod') for d in hf.decorator_list)
        params = [a.arg for a in hf.args.posonlyargs + hf.args.args +
                  hf.args.kwonlyargs]
        defaults = {}
        pos = hf.args.posonlyargs + hf.args.args
        for a, d in zip(pos[len(pos) - len(hf.args.defaults):],
                        hf.args.defaults):
            defaults[a.arg] = d
        for a, d in zip(hf.args.kwonlyargs, hf.args.kw_defaults):
            if d is not None:
                defaults[a.arg] = d
        used = 0
        failed = False
        for q2, f2, cls2, _b in funcs:
            if f2 is hf or (encl is not None and f2 is not encl):
                continue
            for blk in _blocks(f2):
                i = 0
                while i < len(blk):
                    st = blk[i]
                    if st is hf or (encl is not None and
                                    st.lineno <= hf.lineno):
                        i += 1          # a closure is called after its def
                        continue
                    calls = [c for c in ast.walk(st) if isinstance(
                        c, ast.Call) and _is_call_to(c, hf.name, is_method,
                                                     cls)]
                    # only calls that belong to this statement directly (not
                    # to a nested block, which is visited on its own)
                    calls = [c for c in calls if _owner_stmt(st, c)]
                    if not calls:
                        i += 1
                        continue
                    c = calls[0]
                    # a call inside a lambda / comprehension runs later or
                    # repeatedly: it cannot be replaced by statements in
                    # front of the host statement
                    if any(isinstance(x, (ast.Lambda, ast.ListComp,
                                          ast.SetComp, ast.DictComp,
                                          ast.GeneratorExp)) and any(
                               y is c for y in ast.walk(x))
                           for x in ast.walk(st)):
                        failed = True
                        break
                    args = list(c.args)
                    recv = None
                    if is_method and isinstance(c.func, ast.Attribute):
                        recv = c.func.value
                        if isinstance(recv, ast.Name) and cls is not None \
                                and recv.id == cls.name:
                            recv = None          # Class.helper(...)
                    pl = list(params)
                    binding = {}
                    if is_method and not static:
                        if recv is None:
                            if not args:
                                failed = True
                                break
                            binding[pl[0]] = args.pop(0)
                        else:
                            binding[pl[0]] = recv
                        pl = pl[1:]
                    elif is_method and static and pl and pl[0] == 'cls':
                        binding[pl[0]] = ast.Name(id=cls.name,
                                                  ctx=ast.Load())
                        pl = pl[1:]
                    for p_, a_ in zip(pl, args):
                        binding[p_] = a_
                    for k in c.keywords:
                        if k.arg is None:
                            failed = True
                        else:
                            binding[k.arg] = k.value
                    for p_ in pl:
                        if p_ not in binding:
                            if p_ in defaults:
                                binding[p_] = defaults[p_]
                            else:
                                failed = True
                    if failed or any(isinstance(a_, ast.Starred)
                                     for a_ in c.args):
                        failed = True
                        break
                    counter[0] += 1
                    tag = '_h%d_' % counter[0]
                    body = copy.deepcopy(hb)
                    # helper locals (incl. re-bound parameters) get fresh
                    # names; parameters that are only read are substituted
                    stored = set()
                    for s_ in body:
                        stored |= _names(s_, ast.Store)
                    pre = []
                    sub = {}
                    # a parameter the helper mutates (store through it, or a
                    # method-call statement on it) denotes ONE object: an
                    # argument that builds a fresh value must be bound once,
                    # never re-evaluated at every use
                    for p_ in _mutated_through(body, set(binding)):
                        if not _pure_lookup(binding[p_]):
                            stored.add(p_)
                    ren = {n: tag + n for n in stored}
                    for p_, a_ in binding.items():
                        if p_ in stored:
                            pre.append(ast.Assign(
                                targets=[ast.Name(id=tag + p_,
                                                  ctx=ast.Store())],
                                value=copy.deepcopy(a_)))
                        elif any(isinstance(x, ast.Call)
                                 for x in ast.walk(a_)) and \
                                not _read_once_unconditionally(body, p_):
                            # an argument that makes a call is evaluated once,
                            # before the body: it may only be substituted for
                            # a parameter that is read exactly once, on every
                            # path; otherwise it is kept in a local
                            pre.append(ast.Assign(
                                targets=[ast.Name(id=tag + p_,
                                                  ctx=ast.Store())],
                                value=copy.deepcopy(a_)))
                            ren[p_] = tag + p_
                        else:
                            sub[p_] = a_
                    # `a, b = helper(...)` with `return x, y` of helper
                    # locals: the locals become the targets themselves
                    direct = False
                    if isinstance(st, ast.Assign) and len(st.targets) == 1 \
                            and st.value is c and hb and isinstance(
                                hb[-1], ast.Return) and hb[-1].value is not \
                            None:
                        tg = st.targets[0]
                        rv = hb[-1].value
                        tnames = [tg] if isinstance(tg, ast.Name) else (
                            list(tg.elts) if isinstance(tg, ast.Tuple)
                            else [])
                        rnames = [rv] if isinstance(rv, ast.Name) else (
                            list(rv.elts) if isinstance(rv, ast.Tuple)
                            else [])
                        if tnames and len(tnames) == len(rnames) and all(
                                isinstance(x, ast.Name) for x in
                                tnames + rnames) and all(
                                    x.id in stored for x in rnames) and \
                                len({x.id for x in rnames}) == len(rnames) \
                                and all(
                                    # a returned local that is a re-bound
                                    # parameter starts with the argument's
                                    # value: it may become the target only
                                    # when the argument IS the target
                                    r_.id not in binding or (isinstance(
                                        binding[r_.id], ast.Name) and
                                        binding[r_.id].id == t_.id)
                                    for t_, r_ in zip(tnames, rnames)):
                            hnames = set()
                            for s_ in hb:
                                hnames |= _names(s_)
                            # (a target that a substituted argument reads
                            # must not be re-bound before the body read it)
                            for a_ in sub.values():
                                hnames |= _names(a_)
                            if not ({x.id for x in tnames} & (
                                    hnames - {x.id for x in rnames})):
                                for t_, r_ in zip(tnames, rnames):
                                    ren[r_.id] = t_.id
                                direct = True
                                # `t = t` left over from binding a re-bound
                                # parameter to the target itself
                                pre = [p_ for p_ in pre if p_.targets[0].id
                                       not in {tag + r_.id for r_ in rnames
                                               if r_.id in binding}]

                    class R(ast.NodeTransformer):
                        def visit_Name(self, node):
                            if node.id in ren:
                                node.id = ren[node.id]
                                return node
                            if node.id in sub and isinstance(node.ctx,
                                                             ast.Load):
                                return ast.copy_location(
                                    copy.deepcopy(sub[node.id]), node)
                            return node
                    body = [R().visit(s_) for s_ in body]
                    retv = None
                    if getattr(hf, '_multi_return', False):
                        # every return becomes `target = value` (or stays a
                        # return when the call itself is returned)
                        if isinstance(st, ast.Assign) and st.value is c and \
                                len(st.targets) == 1:
                            tgt_ = st.targets[0]

                            class RR(ast.NodeTransformer):
                                def visit_Return(self, node):
                                    return ast.copy_location(ast.Assign(
                                        targets=[copy.deepcopy(tgt_)],
                                        value=node.value or ast.Constant(
                                            value=None)), node)
                            body = [RR().visit(s_) for s_ in body]
                            direct = True
                        elif isinstance(st, ast.Return) and st.value is c:
                            direct = True
                        elif isinstance(st, ast.Expr) and st.value is c and \
                                all(x.value is None or isinstance(
                                    x.value, ast.Constant) for s_ in body
                                    for x in ast.walk(s_)
                                    if isinstance(x, ast.Return)):
                            # a procedure called for its effects: after the
                            # single-exit transformation every `return` (bare
                            # or of a constant, which the call statement
                            # discards) is the last statement of its branch
                            # and nothing follows the branch, so it is dropped
                            body = _drop_tail_returns(body)
                            if any(isinstance(x, ast.Return) for s_ in body
                                   for x in ast.walk(s_)):
                                failed = True
                                break
                            direct = True
                        else:
                            failed = True
                            break
                    elif body and isinstance(body[-1], ast.Return):
                        retv = body[-1].value
                        body = body[:-1]
                    ins = pre + body
                    for s_ in ins:
                        for x in ast.walk(s_):
                            ast.copy_location(x, st)
                    if direct:
                        blk[i:i + 1] = ins
                    elif isinstance(st, ast.Expr) and st.value is c:
                        blk[i:i + 1] = ins
                    else:
                        if retv is None:
                            retv = ast.Constant(value=None)

                        class RC(ast.NodeTransformer):
                            def visit_Call(self, node):
                                if node is c:
                                    return ast.copy_location(
                                        copy.deepcopy(retv), node)
                                self.generic_visit(node)
                                return node
                        blk[i] = RC().visit(st)
                        blk[i:i] = ins
                    used += 1
                    # re-examine the same position (nested helper calls)
                if failed:
                    break
            if failed:
                break
        if used and not failed:
            if encl is not None:
                # the def is dropped only when no reference to the closure
                # is left (every use was a call that has been inlined)
                left = [x for x in ast.walk(encl) if isinstance(x, ast.Name)
                        and x.id == hf.name]
                if not left:
                    container.remove(hf)
                    log.append('inlined nested helper %s at %d call site(s)'
                               % (q, used))
                else:
                    log.append('inlined nested helper %s at %d call site(s); '
                               'definition kept' % (q, used))
                continue
            if hf in container:
                container.remove(hf)
            log.append('inlined helper %s at %d call site(s)' % (q, used))
    if log:
        ast.fix_missing_locations(tree)


def _module_imports(tree, modname, is_pkg=False):
    """{local name: dotted target} of the module-level imports."""
    out = {}
    for st in tree.body:
        if isinstance(st, ast.Import):
            for a in st.names:
                if a.asname:
                    out[a.asname] = a.name
                elif '.' not in a.name:
                    out[a.name] = a.name
        elif isinstance(st, ast.ImportFrom):
            base = st.module or ''
            if st.level:
                pkg = modname.split('.')
                if not is_pkg:
                    pkg = pkg[:-1]
                pkg = pkg[:len(pkg) - (st.level - 1)]
                base = '.'.join(pkg + ([st.module] if st.module else []))
            for a in st.names:
                if a.name != '*':
                    out[a.asname or a.name] = (base + '.' + a.name) if base \
                        else a.name
    return out


def _module_level_names(tree):
    out = set()
    for st in tree.body:
        if isinstance(st, (ast.FunctionDef, ast.AsyncFunctionDef,
                           ast.ClassDef)):
            out.add(st.name)
        elif isinstance(st, (ast.Import, ast.ImportFrom)):
            for a in st.names:
                out.add(a.asname or a.name.split('.')[0])
        else:
            out |= _names(st, ast.Store)
    return out


def _import_foreign_helpers(tree, modname, ref, log):
    """A recorded function calls `alias.h(...)`, `alias` a module-level
    import of another module H of the package and `h` a plain module-level
    helper of H the reference does not know (a body two modules used to spell
    out, now shared).  A copy of `h` becomes a private function of this
    module -- every module-level name of H it reads spelled `alias.name`,
    unless both modules import the same thing under that name -- and the
    calls go to the copy; the helpers step then inlines it like a local one.
    Calling the copy is calling `h`: the same statements over the same
    objects (module attributes of H are read when the body runs, as in H)."""
    from . import core as _core
    if not set(ref.get(modname, {})) - {'__sha1__'}:
        return
    is_pkg = os.path.isfile(os.path.join(
        _core.REPO, modname.replace('.', os.sep), '__init__.py'))
    for _round in range(4):
        imports = _module_imports(tree, modname, is_pkg)
        taken = _module_level_names(tree)
        rebound = set()
        for st in tree.body:
            if not isinstance(st, (ast.Import, ast.ImportFrom)):
                rebound |= {x.id for x in ast.walk(st) if isinstance(
                    x, ast.Name) and not isinstance(x.ctx, ast.Load)}
                rebound |= {a.arg for a in ast.walk(st)
                            if isinstance(a, ast.arg)}
        wanted = {}
        for c in ast.walk(tree):
            if isinstance(c, ast.Call) and isinstance(c.func, ast.Attribute) \
                    and isinstance(c.func.value, ast.Name):
                al, h = c.func.value.id, c.func.attr
                hm = imports.get(al)
                if hm is None or hm == modname or al in rebound or \
                        hm not in ref or h in ref[hm]:
                    continue
                wanted.setdefault((al, hm, h), []).append(c)
        done = False
        for (al, hm, h), calls in sorted(wanted.items()):
            if h in taken or any(isinstance(x, ast.Name) and x.id == h
                                 for x in ast.walk(tree)):
                continue
            path = os.path.join(_core.REPO, hm.replace('.', os.sep) + '.py')
            try:
                with open(path) as fh:
                    htree = ast.parse(fh.read())
            except (OSError, SyntaxError, UnicodeDecodeError):
                continue
            defs = [st for st in htree.body if isinstance(
                st, (ast.FunctionDef, ast.AsyncFunctionDef, ast.ClassDef))
                and st.name == h]
            if len(defs) != 1 or not isinstance(defs[0], ast.FunctionDef):
                continue
            hf = defs[0]
            # bound once at module level of H, by the def
            if any(isinstance(x, ast.Name) and x.id == h and not isinstance(
                    x.ctx, ast.Load) for x in ast.walk(htree)):
                continue
            if hf.decorator_list or _simple_helper(copy.deepcopy(hf)) is None \
                    or hf.args.kwonlyargs or any(
                        not isinstance(d, ast.Constant)
                        for d in hf.args.defaults):
                continue
            hglob = _module_level_names(htree)
            himports = _module_imports(htree, hm)
            params = {a.arg for a in ast.walk(hf.args)
                      if isinstance(a, ast.arg)}
            bound = params | {x.id for x in ast.walk(hf) if isinstance(
                x, ast.Name) and not isinstance(x.ctx, ast.Load)}
            if bound & hglob or al in bound:
                continue            # a local shadows a module-level name
            hf = copy.deepcopy(hf)

            class Q(ast.NodeTransformer):
                def visit_Name(self, node):
                    if node.id in hglob and node.id not in bound and not (
                            node.id in himports and imports.get(node.id)
                            == himports[node.id]
                            and node.id not in rebound):
                        # this module's own name for the same import
                        same = sorted(a_ for a_, t_ in imports.items()
                                      if t_ == himports.get(node.id)
                                      and a_ not in rebound
                                      and a_ not in bound)
                        if same:
                            return ast.copy_location(ast.Name(
                                id=same[0], ctx=ast.Load()), node)
                        return ast.copy_location(ast.Attribute(
                            value=ast.Name(id=al, ctx=ast.Load()),
                            attr=node.id, ctx=ast.Load()), node)
                    return node
            hf.body = [Q().visit(s_) for s_ in hf.body]
            _Universal().visit(hf)
            _KwToPos(_signatures(_core.REPO)).visit(hf)
            _SplitTupleAssign().visit(hf)
            tree.body.append(hf)
            for c in calls:
                c.func = ast.copy_location(ast.Name(id=h, ctx=ast.Load()),
                                           c.func)
            ast.fix_missing_locations(tree)
            log.append('helper %s of %s (called as %s.%s) copied into the '
                       'module for inlining' % (h, hm, al, h))
            done = True
            break               # names of the module changed: look again
        if not done:
            break


def _is_call_to(c, name, is_method, cls):
    f = c.func
    if is_method:
        return isinstance(f, ast.Attribute) and f.attr == name and \
            isinstance(f.value, ast.Name) and (
                f.value.id in ('self', 'cls') or (cls is not None and
                                                  f.value.id == cls.name))
    return isinstance(f, ast.Name) and f.id == name


def _owner_stmt(st, call):
    """call occurs in st outside of st's nested statement blocks."""
    stack = [st]
    while stack:
        n = stack.pop()
        if n is call:
            return True
        for fld, val in ast.iter_fields(n):
            if fld in ('body', 'orelse', 'finalbody', 'handlers') and \
                    isinstance(n, ast.stmt) and isinstance(val, list) and \
                    val and isinstance(val[0], (ast.stmt,
                                                ast.ExceptHandler)):
                continue
            if isinstance(val, ast.AST):
                stack.append(val)
            elif isinstance(val, list):
                stack.extend(v for v in val if isinstance(v, ast.AST))
    return False


# ---------------------------------------------------------------------------
# I: if orientation

def _unsigned(test):
    """(canonical text without polarity, polarity)"""
    if isinstance(test, ast.UnaryOp) and isinstance(test.op, ast.Not):
        t, p = _unsigned(test.operand)
        return t, not p
    if isinstance(test, ast.Compare) and len(test.ops) == 1:
        op = type(test.ops[0])
        canon_op = {ast.NotEq: ast.Eq, ast.GtE: ast.Lt, ast.LtE: ast.Gt,
                    ast.IsNot: ast.Is, ast.NotIn: ast.In}
        if op in canon_op:
            c = ast.Compare(left=test.left, ops=[canon_op[op]()],
                            comparators=test.comparators)
            return _n(c), False
        return _n(test), True
    if isinstance(test, ast.BoolOp):
        # De Morgan: `a or b` is `not (not a and not b)`; conjunctions are
        # spelled operand-wise (same operands, same order of evaluation)
        parts = [_unsigned(v) for v in test.values]
        if isinstance(test.op, ast.Or):
            return _and_text([(u, not p) for u, p in parts]), False
        return _and_text(parts), True
    return _n(test), True


def _and_text(parts):
    return ' and '.join(('(%s)' if p else 'not (%s)') % u for u, p in parts)


def _ifs_in_order(fn):
    out = []

    def rec(stmts):
        for i, st in enumerate(stmts):
            if isinstance(st, (ast.FunctionDef, ast.AsyncFunctionDef,
                               ast.ClassDef)):
                continue
            if isinstance(st, ast.If):
                out.append((st, stmts, i))
            for f in ('body', 'orelse', 'finalbody'):
                b = getattr(st, f, None)
                if isinstance(b, list) and b and isinstance(b[0], ast.stmt):
                    rec(b)
            if isinstance(st, ast.Try):
                for h in st.handlers:
                    rec(h.body)
    rec(fn.body)
    return out


def _restore_bool_returns(fn, rf, log, q):
    """return bool(c) / return c   ->   if c: return True / else: return
    False, where the reference tests c."""
    ref_u = set()
    for t, has_else, jump in rf.get('tests', []):
        try:
            ref_u.add(_unsigned(ast.parse(t, mode='eval').body)[0])
        except SyntaxError:
            pass
    if not ref_u:
        return
    for blk in _blocks(fn):
        for i, st in enumerate(blk):
            if not isinstance(st, ast.Return) or st.value is None:
                continue
            v = st.value
            if isinstance(v, ast.Call) and _n(v.func) == 'bool' and \
                    len(v.args) == 1:
                v = v.args[0]
            if isinstance(v, (ast.Compare, ast.BoolOp)) or (
                    isinstance(v, ast.UnaryOp) and isinstance(v.op,
                                                              ast.Not)):
                if _unsigned(v)[0] in ref_u:
                    new = ast.If(
                        test=v,
                        body=[ast.Return(value=ast.Constant(value=True))],
                        orelse=[ast.Return(value=ast.Constant(value=False))])
                    blk[i] = ast.copy_location(new, st)
                    ast.fix_missing_locations(blk[i])
                    log.append('%s: boolean return restored to if/else'
                               % q)
    ast.fix_missing_locations(fn)


def _conjunction_ifs(fn, rf, log, q):
    """`if A and B: S` (no else)  <->  `if A: if B: S` (neither with an
    else), whichever the reference has.  The two forms are the same program
    (short-circuit evaluation, no else branch to duplicate)."""
    ref_u = set()
    for t, has_else, jump in rf.get('tests', []):
        try:
            ref_u.add(_unsigned(ast.parse(t, mode='eval').body)[0])
        except SyntaxError:
            pass
    if not ref_u:
        return
    for _pass in range(8):
        changed = False
        for st, blk, i in _ifs_in_order(fn):
            if st.orelse:
                continue
            t = st.test
            if isinstance(t, ast.BoolOp) and isinstance(t.op, ast.And) and \
                    _unsigned(t)[0] not in ref_u and all(
                        _unsigned(v)[0] in ref_u for v in t.values):
                inner = st.body
                for v in reversed(t.values[1:]):
                    nest = ast.copy_location(
                        ast.If(test=v, body=inner, orelse=[]), st)
                    inner = [nest]
                txt = _n(t)
                st.test = t.values[0]
                st.body = inner
                log.append('%s: `if %s` split into nested ifs' % (q, txt))
                changed = True
                break
            if len(st.body) == 1 and isinstance(st.body[0], ast.If) and \
                    not st.body[0].orelse and \
                    _unsigned(t)[0] not in ref_u:
                both = ast.BoolOp(op=ast.And(),
                                  values=[t, st.body[0].test])
                if _unsigned(both)[0] in ref_u:
                    st.test = ast.copy_location(both, t)
                    st.body = st.body[0].body
                    log.append('%s: nested ifs merged into `if %s`'
                               % (q, _n(both)))
                    changed = True
                    break
        if not changed:
            break
    ast.fix_missing_locations(fn)


def _orient_ifs(fn, rf, log, q):
    """Bring every if-statement to the polarity / shape the reference has at
    the corresponding position (sequence alignment on the unsigned tests)."""
    import difflib
    ref = rf.get('tests', [])
    if not ref:
        return
    ref_u = []
    for t, has_else, jump in ref:
        try:
            u, p = _unsigned(ast.parse(t, mode='eval').body)
        except SyntaxError:
            u, p = t, True
        ref_u.append((u, p, has_else, jump))
    for _pass in range(12):
        cur = _ifs_in_order(fn)
        cur_u = [_unsigned(st.test) for st, _b, _i in cur]
        sm = difflib.SequenceMatcher(a=[u for u, *_ in ref_u],
                                     b=[u for u, _p in cur_u],
                                     autojunk=False)
        changed = False
        for blk_ in sm.get_matching_blocks():
            for k in range(blk_.size):
                ru, rp, has_else, jump = ref_u[blk_.a + k]
                st, blk, i = cur[blk_.b + k]
                cu, cp = cur_u[blk_.b + k]
                t = _n(st.test)
                if cp != rp:
                    if st.orelse:
                        st.test = negate(st.test)
                        st.body, st.orelse = st.orelse, st.body
                        log.append('%s: branches of `%s` swapped back'
                                   % (q, t))
                        changed = True
                        break
                    if not has_else and jump and not blk[i + 1:]:
                        kind = _enclosing_jump(fn, blk)
                        if kind is not None:
                            body = st.body
                            st.test = negate(st.test)
                            st.body = [ast.copy_location(kind(), st)]
                            blk[i + 1:i + 1] = body
                            log.append('%s: nested `%s` restored to a guard'
                                       % (q, t))
                            changed = True
                            break
                    if not has_else and not jump and not st.orelse and \
                            len(st.body) == 1 and blk[i + 1:] and (
                                (isinstance(st.body[0], ast.Return) and (
                                    st.body[0].value is None or (isinstance(
                                        st.body[0].value, ast.Constant) and
                                        st.body[0].value.value is None))
                                 and blk is fn.body) or
                                (isinstance(st.body[0], ast.Continue) and
                                 _enclosing_jump(fn, blk) is not None)):
                        # `if not c: return` + rest  <-  `if c: rest`
                        rest = blk[i + 1:]
                        del blk[i + 1:]
                        st.test = negate(st.test)
                        st.body = rest
                        log.append('%s: early exit `%s` restored to a '
                                   'guarded block' % (q, t))
                        changed = True
                        break
                    if has_else and jump and not st.orelse and \
                            not blk[i + 1:] and \
                            _enclosing_jump(fn, blk) is ast.Continue:
                        # `if not c: body` closing a loop body  ->
                        # `if c: continue else: body`
                        body = st.body
                        st.test = negate(st.test)
                        st.body = [ast.copy_location(ast.Continue(), st)]
                        st.orelse = body
                        log.append('%s: nested `%s` restored to '
                                   'continue/else' % (q, t))
                        changed = True
                        break
                    if has_else and not st.orelse and _jump(st.body) and \
                            blk[i + 1:]:
                        # `if not c: jump` + rest  <-  `if c: rest else: jump`
                        rest = blk[i + 1:]
                        del blk[i + 1:]
                        st.test = negate(st.test)
                        st.orelse = st.body
                        st.body = rest
                        log.append('%s: guard `%s` restored to if/else'
                                   % (q, t))
                        changed = True
                        break
                    continue
                # same polarity, other spelling of the test
                rt = ref[blk_.a + k][0]
                if t != rt and _unsigned(st.test)[0] == ru:
                    try:
                        st.test = ast.copy_location(
                            ast.parse(rt, mode='eval').body, st.test)
                        ast.fix_missing_locations(st)
                        t = rt
                    except SyntaxError:
                        pass
                # same polarity, other shape
                if has_else and not st.orelse and _jump(st.body) and \
                        blk[i + 1:]:
                    st.orelse = blk[i + 1:]
                    del blk[i + 1:]
                    # a bare return that only ended the function early is
                    # redundant once the rest lives in the else branch
                    last = st.body[-1]
                    if blk is fn.body and isinstance(last, ast.Return) and (
                            last.value is None or (isinstance(
                                last.value, ast.Constant) and
                                last.value.value is None)) and \
                            len(st.body) > 1 and not jump:
                        st.body = st.body[:-1]
                    log.append('%s: guard `%s` restored to if/else' % (q, t))
                    changed = True
                    break
                if not has_else and jump and st.orelse and _jump(st.body):
                    rest = st.orelse
                    st.orelse = []
                    blk[i + 1:i + 1] = rest
                    log.append('%s: else of `%s` flattened after the jump'
                               % (q, t))
                    changed = True
                    break
            if changed:
                break
        if not changed:
            break
    ast.fix_missing_locations(fn)


def _enclosing_jump(fn, blk):
    """Continue if blk is the body of a loop, else None (a Return would need
    the function's result)."""
    for n in _own_nodes(fn):
        if isinstance(n, (ast.For, ast.While)) and n.body is blk:
            return ast.Continue
    return None


# ---------------------------------------------------------------------------
# L: loop headers

from collections import Counter as _Counter


def _free_index_name(fn, loop, candidates):
    """A recorded loop-target name usable for `loop`: unused in the function,
    or used only by other loops that neither contain nor follow into this
    one (the name is dead at this loop)."""
    inside = _names(loop)
    for c_ in candidates:
        if not c_.isidentifier() or c_ in inside:
            continue
        uses = [x for x in _own_nodes(fn) if isinstance(x, ast.Name)
                and x.id == c_]
        if not uses:
            return c_
        # every other use lies inside a for-loop that binds the name and
        # does not enclose `loop`
        ok = True
        binders = [l for l in _own_nodes(fn) if isinstance(l, ast.For)
                   and c_ in _names(l.target) and l is not loop]
        for x in uses:
            host = [l for l in binders if any(y is x for y in ast.walk(l))]
            if not host or any(any(y is loop for y in ast.walk(l))
                               for l in host):
                ok = False
                break
        if ok:
            return c_
    return None


def _row_base(seq):
    """The array whose first axis `seq` runs over, for the two NumPy forms
    that keep the first axis: `X[:, c]` (full slice first) and
    `.astype(t)`; None when `seq` is not of that form.  len(seq) equals
    X.shape[0] (trusted NumPy fact; on anything else both spellings fail)."""
    e = seq
    changed = False
    while True:
        if isinstance(e, ast.Call) and isinstance(e.func, ast.Attribute) and \
                e.func.attr == 'astype' and len(e.args) == 1 and \
                not e.keywords and isinstance(e.args[0],
                                              (ast.Name, ast.Attribute,
                                               ast.Constant)):
            e = e.func.value
            changed = True
            continue
        if isinstance(e, ast.Subscript) and isinstance(e.slice, ast.Tuple) \
                and len(e.slice.elts) == 2 and _full_slice(e.slice.elts[0]) \
                and (isinstance(e.slice.elts[1], (ast.Constant, ast.Slice))
                     or (isinstance(e.slice.elts[1], ast.UnaryOp) and
                         isinstance(e.slice.elts[1].operand, ast.Constant))):
            e = e.value
            changed = True
            continue
        break
    return e if changed and _pure_lookup(e) else None


def _full_slice(x):
    return isinstance(x, ast.Slice) and x.lower is None and x.upper is None \
        and x.step is None


def _dead_outside(fn, loop, name):
    """`name` is not read outside `loop` except where another loop or a
    comprehension binds it first (so dropping the binding made by `loop`
    cannot turn a read of a left-over value into something else)."""
    inside = {id(y) for y in ast.walk(loop)}
    comps = (ast.ListComp, ast.SetComp, ast.GeneratorExp, ast.DictComp)
    binders = [l for l in _own_nodes(fn)
               if (isinstance(l, ast.For) and l is not loop and
                   name in _names(l.target)) or
               (isinstance(l, comps) and any(name in _names(g_.target)
                                             for g_ in l.generators))]
    for x in _own_nodes(fn):
        if isinstance(x, ast.Name) and x.id == name and id(x) not in inside:
            host = [l for l in binders if any(y is x for y in ast.walk(l))]
            if not host or any(any(y is loop for y in ast.walk(l))
                               for l in host):
                return False
    return True


def _dead_outside_names(fn, loop, names):
    """The loop-target names of `loop` carry no value out of it: every
    other occurrence lies inside a for-loop that binds the name itself and
    neither contains `loop` nor is contained in it."""
    inside = {id(x) for x in ast.walk(loop)}
    for nm in names:
        binders = [l for l in _own_nodes(fn) if isinstance(l, ast.For)
                   and l is not loop and id(l) not in inside
                   and nm in _names(l.target)]
        for x in _own_nodes(fn):
            if not (isinstance(x, ast.Name) and x.id == nm) or \
                    id(x) in inside:
                continue
            host = [l for l in binders if any(y is x for y in ast.walk(l))
                    and not any(y is x for y in ast.walk(l.iter))]
            if not host or any(any(y is loop for y in ast.walk(l))
                               for l in host):
                return False
    return True




def _length_headers(fn, loop, seq):
    """Headers `range(N)` for the locals N of fn that hold the length of the
    sequence `seq` when `loop` starts: N is bound exactly once, by `N =
    len(seq)` or `N = seq.shape[0]`, in a statement list that contains the
    loop (at any depth) behind that binding; `seq` is a pure look-up whose
    names are bound nowhere in the function (parameters / `self`) and whose
    root is not stored into, deleted from, updated in place or the receiver
    of a method-call statement anywhere in the function, so it has the same
    number of items at the binding and at the loop."""
    if not _pure_lookup(seq):
        return []
    roots = _names(seq)
    if roots & _names(fn, (ast.Store, ast.Del)):
        return []
    if _mutated_through(fn.body, roots) or any(
            _mutated_through_name(fn, r_) for r_ in roots):
        return []
    s = _n(seq)
    out = []
    params, locs = local_order(fn)
    for nm in locs:
        h = _single_assign(fn, nm)
        if h is None or _n(h[2].value) not in ('len(%s)' % s,
                                               '%s.shape[0]' % s):
            continue
        blk, i, _st = h
        if any(x is loop for s_ in blk[i + 1:] for x in ast.walk(s_)):
            out.append('range(%s)' % nm)
    return out


def _loops_to_reference(fn, rf, log, q):
    ref_loops = rf.get('loops', [])
    ref_iters = {}
    for tg, it in ref_loops:
        ref_iters.setdefault(it, []).append(tg)
    # recorded loops over a hoisted lookup (`tmp = X; for r in tmp`): also
    # known under the lookup itself; restoring one re-introduces the local
    rdefs = rf.get('defs', {})
    rehoist = {}
    for tg, it in ref_loops:
        for nm, ds in rdefs.items():
            if len(ds) == 1 and not ds[0].startswith(('for', 'unpack', 'aug')) \
                    and _re.search(r'(?<![\w.])%s(?![\w])' % _re.escape(nm),
                                   it):
                try:
                    dnode = ast.parse(ds[0], mode='eval').body
                except SyntaxError:
                    continue
                # (a recorded local naming a string key, `kz = 'key'`, is
                # spelled out the same way: the header is then also known
                # with the key in place of the local)
                if not (_pure_lookup(dnode) or (
                        isinstance(dnode, ast.Constant) and
                        isinstance(dnode.value, str) and dnode.value)):
                    continue
                exp = _n(_Subst({nm: dnode}).visit(
                    ast.parse(it, mode='eval').body))
                if exp != it and exp not in ref_iters:
                    ref_iters.setdefault(exp, []).append(tg)
                    rehoist[exp] = (nm, ds[0], it)
    have = _Counter(_n(n.iter) for n in _own_nodes(fn)
                    if isinstance(n, ast.For))
    for n in sorted([x for x in _own_nodes(fn) if isinstance(x, ast.For)],
                    key=lambda x: (x.lineno, x.col_offset)):
        if not isinstance(n, ast.For):
            continue
        it = n.iter
        its = _n(it)
        if its in ref_iters:
            continue
        seq = idxname = elt = None
        keyed = False
        # enumerate(zip(A, B, ...)) / zip(A, B, ...) over parallel sequences
        zc = it
        zidx = None
        if isinstance(it, ast.Call) and _n(it.func) == 'enumerate' and \
                len(it.args) == 1 and not it.keywords and \
                isinstance(n.target, ast.Tuple) and \
                len(n.target.elts) == 2 and isinstance(
                    n.target.elts[0], ast.Name):
            zc = it.args[0]
            zidx = n.target.elts[0].id
            ztg = n.target.elts[1]
        else:
            ztg = n.target
        if isinstance(zc, ast.Call) and _n(zc.func) == 'zip' and \
                isinstance(ztg, ast.Tuple) and len(ztg.elts) == len(zc.args) \
                and all(isinstance(e, ast.Name) for e in ztg.elts):
            hdr = None
            for a_ in zc.args:
                for h_ in ('range(len(%s))' % _n(a_),
                           'range(%s.shape[0])' % _n(a_)):
                    if h_ in ref_iters and have[h_] < len(ref_iters[h_]):
                        hdr = h_
                        break
                if hdr is not None:
                    break
            elts = [e.id for e in ztg.elts]
            body_stores = _names(ast.Module(body=n.body, type_ignores=[]),
                                 ast.Store)
            if hdr is not None and not (set(elts) & body_stores):
                iname = zidx or _free_index_name(fn, n, ref_iters[hdr])
                if iname is not None and iname.isidentifier():
                    sub = {e: ast.Subscript(
                        value=copy.deepcopy(a_), slice=ast.Name(
                            id=iname, ctx=ast.Load()), ctx=ast.Load())
                        for e, a_ in zip(elts, zc.args)}
                    n.body = [_Subst(sub).visit(s_) for s_ in n.body]
                    n.target = ast.copy_location(ast.Name(
                        id=iname, ctx=ast.Store()), n.target)
                    n.iter = ast.copy_location(ast.parse(
                        hdr, mode='eval').body, it)
                    have[hdr] += 1
                    log.append('%s: loop over %s restored to `for %s in %s`'
                               % (q, its, iname, hdr))
                    continue
        # rows of the leading columns unpacked: `for a, b in S[:, :2]` ->
        # `for i in range(S.shape[0])` with a = S[i, 0], b = S[i, 1]
        if isinstance(n.target, ast.Tuple) and len(n.target.elts) >= 2 and \
                all(isinstance(e, ast.Name) for e in n.target.elts) and \
                len({e.id for e in n.target.elts}) == len(n.target.elts) \
                and isinstance(it, ast.Subscript) and \
                _pure_lookup(it.value) and \
                isinstance(it.slice, ast.Tuple) and \
                len(it.slice.elts) == 2 and _full_slice(it.slice.elts[0]) \
                and isinstance(it.slice.elts[1], ast.Slice) and \
                it.slice.elts[1].lower is None and \
                it.slice.elts[1].step is None and isinstance(
                    it.slice.elts[1].upper, ast.Constant) and \
                it.slice.elts[1].upper.value == len(n.target.elts) and \
                not n.orelse:
            s = _n(it.value)
            cands = [(h_, ref_iters.get(h_)) for h_ in (
                'range(%s.shape[0])' % s, 'range(len(%s))' % s)]
            cands = [(h, t) for h, t in cands if t and have[h] < len(t)]
            elts = [e.id for e in n.target.elts]
            body_m = ast.Module(body=n.body, type_ignores=[])
            if cands and not (set(elts) | _names(it.value)) & _names(
                    body_m, (ast.Store, ast.Del)) and all(
                        _dead_outside(fn, n, e) for e in elts):
                header, tgs = cands[0]
                iname = _free_index_name(fn, n, tgs)
                if iname is not None:
                    sub = {e: ast.Subscript(
                        value=copy.deepcopy(it.value), slice=ast.Tuple(
                            elts=[ast.Name(id=iname, ctx=ast.Load()),
                                  ast.Constant(value=k_)], ctx=ast.Load()),
                        ctx=ast.Load()) for k_, e in enumerate(elts)}
                    n.body = [_Subst(sub).visit(s_) for s_ in n.body]
                    n.target = ast.copy_location(ast.Name(
                        id=iname, ctx=ast.Store()), n.target)
                    n.iter = ast.copy_location(ast.parse(
                        header, mode='eval').body, it)
                    have[header] += 1
                    log.append('%s: row-unpacking loop over %s restored to '
                               '`for %s in %s`' % (q, its, iname, header))
            continue
        start = None
        counter = None
        if isinstance(it, ast.Call) and _n(it.func) == 'enumerate':
            # enumerate(S) / enumerate(S, k) / enumerate(S, start=k) with an
            # integer constant k; any other spelling is left alone
            if not (isinstance(n.target, ast.Tuple) and
                    len(n.target.elts) == 2 and all(
                        isinstance(e, ast.Name) for e in n.target.elts)):
                continue
            if len(it.args) == 2 and not it.keywords:
                start = it.args[1]
            elif len(it.args) == 1 and len(it.keywords) == 1 and \
                    it.keywords[0].arg == 'start':
                start = it.keywords[0].value
            elif len(it.args) != 1 or it.keywords:
                continue
            if start is not None:
                if not (isinstance(start, ast.Constant) and
                        type(start.value) is int):
                    continue
                if start.value == 0:
                    start = None
            seq = it.args[0]
            idxname, elt = n.target.elts[0].id, n.target.elts[1].id
            if start is not None:
                # the counter is index + k: the index gets a recorded name of
                # its own, the counter is spelled `index + k`
                counter, idxname = idxname, None
        elif isinstance(it, ast.Call) and isinstance(it.func, ast.Attribute) \
                and it.func.attr == 'items' and not it.args and isinstance(
                    n.target, ast.Tuple) and len(n.target.elts) == 2 and \
                all(isinstance(e, ast.Name) for e in n.target.elts):
            seq = it.func.value
            idxname, elt = n.target.elts[0].id, n.target.elts[1].id
            keyed = True
        elif isinstance(it, ast.Call) and isinstance(it.func, ast.Attribute) \
                and it.func.attr == 'values' and not it.args and isinstance(
                    n.target, ast.Name):
            seq = it.func.value
            elt = n.target.id
            keyed = True
        elif isinstance(n.target, ast.Name) and isinstance(
                it, (ast.Name, ast.Attribute, ast.Subscript)):
            seq = it
            elt = n.target.id
        if seq is None:
            continue
        s = _n(seq)
        cands = []
        if keyed:
            cands = [(s, ref_iters.get(s))]
        else:
            cands = [(h_, ref_iters.get(h_)) for h_ in (
                'range(len(%s))' % s, 'range(%s.shape[0])' % s)]
        cands = [(h, t) for h, t in cands if t and have[h] < len(t)]
        if not cands and not keyed:
            # the recorded header counts with a local that holds the length
            # of this very sequence: `N = len(S)` ... `for i in range(N)`
            cands = [(h_, ref_iters.get(h_))
                     for h_ in _length_headers(fn, n, seq)]
            cands = [(h, t) for h, t in cands if t and have[h] < len(t)]
        if not cands and not keyed and _row_base(seq) is not None:
            # a column / converted copy has as many rows as its array
            b_ = _n(_row_base(seq))
            cands = [(h_, ref_iters.get(h_)) for h_ in (
                'range(%s.shape[0])' % b_, 'range(len(%s))' % b_)]
            cands = [(h, t) for h, t in cands if t and have[h] < len(t)]
            if cands and (not _dead_outside(fn, n, elt) or _names(seq) &
                          _names(ast.Module(body=n.body, type_ignores=[]),
                                 (ast.Store, ast.Del))):
                cands = []
        if not cands:
            continue
        header, tgs = cands[0]
        if elt in _names(ast.Module(body=n.body, type_ignores=[]),
                         ast.Store):
            continue
        if counter is not None:
            # side conditions of the shifted counter: never re-bound in the
            # body, and neither it nor the element is read outside the loop
            # (after the rewrite they are no longer bound there)
            bstores = _names(ast.Module(body=n.body, type_ignores=[]),
                             ast.Store)
            if counter in bstores or n.orelse or (_names(seq) & bstores) \
                    or not _pure_lookup(seq) \
                    or not _dead_outside_names(fn, n, (counter, elt)):
                continue
        if idxname is None:
            idxname = _free_index_name(fn, n, tgs)
            if idxname is None:
                continue
        sub = ast.Subscript(value=copy.deepcopy(seq), slice=ast.Name(
            id=idxname, ctx=ast.Load()), ctx=ast.Load())
        subm = {elt: sub}
        if counter is not None:
            subm[counter] = ast.BinOp(
                left=ast.Name(id=idxname, ctx=ast.Load()), op=ast.Add(),
                right=ast.Constant(value=start.value))
        n.body = [_Subst(subm).visit(s_) for s_ in n.body]
        n.orelse = [_Subst(subm).visit(s_) for s_ in n.orelse]
        n.target = ast.copy_location(ast.Name(id=idxname, ctx=ast.Store()),
                                     n.target)
        n.iter = ast.copy_location(ast.parse(header, mode='eval').body, it)
        have[header] += 1
        if header in rehoist and rehoist[header][0] not in _names(fn) and \
                sum(1 for x in _own_nodes(fn) if isinstance(x, ast.expr)
                    and _n(x) == rehoist[header][1]) == \
                sum(1 for x in ast.walk(n) if isinstance(x, ast.expr)
                    and _n(x) == rehoist[header][1]):
            # (occurrences outside the loop are left to _rehoist, which
            # places the local in front of the first of them)
            nm, dtext, raw = rehoist[header]
            # re-introduce the recorded local in front of the loop and use
            # it for the lookup inside the loop
            blk_i = [(b_, b_.index(n)) for b_ in _blocks(fn) if n in b_]
            if blk_i:
                b_, k_ = blk_i[0]
                dnode = ast.parse(dtext, mode='eval').body

                class RH(ast.NodeTransformer):
                    def generic_visit(self, node):
                        if isinstance(node, ast.expr) and _n(node) == dtext \
                                and isinstance(getattr(node, 'ctx', None),
                                               (ast.Load, type(None))):
                            return ast.copy_location(ast.Name(
                                id=nm, ctx=ast.Load()), node)
                        return super().generic_visit(node)
                n.iter = ast.copy_location(ast.parse(
                    raw, mode='eval').body, n.iter)
                n.body = [RH().visit(s_) for s_ in n.body]
                asg = ast.Assign(targets=[ast.Name(id=nm, ctx=ast.Store())],
                                 value=dnode)
                ast.copy_location(asg, n)
                b_.insert(k_, asg)
                header = raw
                log.append('%s: local %s re-introduced for `%s`'
                           % (q, nm, dtext))
        log.append('%s: loop over %s restored to `for %s in %s`'
                   % (q, its, idxname, header))
    ast.fix_missing_locations(fn)


# ---------------------------------------------------------------------------
# LU: unroll short literal loops the reference does not have

def _literal_items(it):
    if isinstance(it, (ast.Tuple, ast.List)) and all(
            isinstance(e, ast.Constant) or _pure_lookup(e) or (
                isinstance(e, (ast.Tuple, ast.List)) and all(
                    isinstance(x, ast.Constant) or _pure_lookup(x)
                    for x in e.elts)) for e in it.elts):
        return [e for e in it.elts]
    if isinstance(it, ast.Call) and isinstance(it.func, ast.Name) and \
            it.func.id == 'range' and all(isinstance(a, ast.Constant) and
                                          isinstance(a.value, int)
                                          for a in it.args) and \
            1 <= len(it.args) <= 3 and not it.keywords:
        vals = list(range(*[a.value for a in it.args]))
        return [ast.Constant(value=v) for v in vals]
    return None


def _negate_exact(test):
    """`not test` without touching an ordering comparison (`not a > b` is
    not `a <= b` for NaN): strips a `not`, flips ==/!=, is/is not, in/not
    in, otherwise wraps."""
    if isinstance(test, ast.UnaryOp) and isinstance(test.op, ast.Not):
        return test.operand
    if isinstance(test, ast.Compare) and len(test.ops) == 1 and \
            type(test.ops[0]) in (ast.Eq, ast.NotEq, ast.Is, ast.IsNot,
                                  ast.In, ast.NotIn):
        return negate(test)
    return ast.copy_location(ast.UnaryOp(op=ast.Not(), operand=test), test)


def _guard_continues(body, neg=None):
    """Rewrite top-level `if T: continue` guards of a loop body into nested
    ifs; None if another continue / break remains."""
    neg = neg or negate
    out = []
    for k, st in enumerate(body):
        if isinstance(st, ast.If) and not st.orelse and len(st.body) == 1 \
                and isinstance(st.body[0], ast.Continue):
            rest = _guard_continues(body[k + 1:], neg)
            if rest is None:
                return None
            if rest:
                new = ast.If(test=neg(st.test), body=rest, orelse=[])
                out.append(ast.copy_location(new, st))
            return out
        if any(isinstance(x, (ast.Break, ast.Continue))
               for x in ast.walk(st)):
            return None
        out.append(st)
    return out


def _fold_foreign_continues(fn, rf, log, q):
    """`for ..: if T: continue; REST`  ->  `for ..: if not T: REST` in a
    function whose recorded form has no if-statement ending in a jump at
    all: a guard-`continue` the alignment of _orient_ifs could not pair (its
    test is spelled differently) is still foreign to the recorded shape.
    Exact: REST is the tail of the loop body, the loop has no other
    continue / break at that level (checked by _guard_continues)."""
    if any(jump for _t, _e, jump in rf.get('tests', [])):
        return
    for n in list(_own_nodes(fn)):
        if not isinstance(n, (ast.For, ast.While)):
            continue
        if not any(isinstance(st, ast.If) and not st.orelse and
                   len(st.body) == 1 and isinstance(st.body[0], ast.Continue)
                   for st in n.body):
            continue
        new = _guard_continues(n.body, _negate_exact)
        if new:
            n.body = new
            log.append('%s: guard-continue in `for %s` folded into a nested '
                       'if (the recorded form has no early exits)'
                       % (q, _n(n.target) if isinstance(n, ast.For)
                          else _n(n.test)))
    ast.fix_missing_locations(fn)


def _inline_literal_tuples(fn, rf, log, q):
    """`T = (a, b, c)` (a tuple display of constants / pure look-ups, possibly
    pairs of them) for a local T the reference does not know -> the display
    at its uses.  A tuple is immutable, so its identity is unobservable and
    the display may be repeated; `_inline_temp` establishes that no operand is
    re-bound between the definition and the last use and that every use
    follows the definition in its block.  Runs before the literal-loop
    unroller, which then sees `for x in (a, b, c)`."""
    ref_locs = set(rf.get('locals', []))
    for _ in range(8):
        params, locs = local_order(fn)
        done = False
        for c_ in locs:
            if c_ in ref_locs:
                continue
            h = _single_assign(fn, c_)
            if h is None or not isinstance(h[2].value, ast.Tuple) or \
                    not h[2].value.elts or \
                    _literal_items(h[2].value) is None:
                continue
            # no comprehension / lambda may bind an operand of the display
            ops = _names(h[2].value)
            bound = set()
            for n in _own_nodes(fn):
                if isinstance(n, ast.comprehension):
                    bound |= _names(n.target)
                elif isinstance(n, ast.Lambda):
                    bound |= {a.arg for a in n.args.args}
            if ops & bound:
                continue
            # a recorded local defined by the same elements (as a list or
            # tuple display) is this local under another name: leave it to
            # _tuple_locals_to_lists / the pairing step
            elts_txt = [_n(e) for e in h[2].value.elts]
            twin = False
            for nm_, ds_ in rf.get('defs', {}).items():
                for d_ in ds_:
                    try:
                        dn_ = ast.parse(d_, mode='eval').body
                    except SyntaxError:
                        continue
                    if isinstance(dn_, (ast.List, ast.Tuple)) and \
                            [_n(e) for e in dn_.elts] == elts_txt:
                        twin = True
            if twin:
                continue
            if _inline_temp(fn, c_):
                log.append('%s: literal tuple %s inlined' % (q, c_))
                done = True
                break
        if not done:
            break
    ast.fix_missing_locations(fn)


def _fold_test(t):
    """Truth-value simplification of a test that contains the literals True /
    False (left behind when a helper's flag parameter was bound to a literal
    argument).  Only the truth value of the result matters to the caller, so
    `True and X` -> X; `False and X` -> False (X is not evaluated in either
    form); operands in front of the literal are kept and still evaluated."""
    if isinstance(t, ast.UnaryOp) and isinstance(t.op, ast.Not):
        o = _fold_test(t.operand)
        if isinstance(o, ast.Constant) and isinstance(o.value, bool):
            return ast.copy_location(ast.Constant(value=not o.value), t)
        if isinstance(o, ast.UnaryOp) and isinstance(o.op, ast.Not) and \
                _always_bool(o.operand):
            return o.operand            # not (not <genuine bool>)
        if isinstance(o, ast.Compare) and len(o.ops) == 1 and isinstance(
                o.ops[0], (ast.In, ast.NotIn, ast.Is, ast.IsNot)) and \
                o is not t.operand:
            return _negate_exact(o)     # only where something was folded
        t.operand = o
        return t
    if isinstance(t, ast.BoolOp):
        is_and = isinstance(t.op, ast.And)
        vals = []
        for v in t.values:
            v = _fold_test(v)
            if isinstance(v, ast.Constant) and isinstance(v.value, bool):
                if v.value == is_and:
                    continue            # neutral element
                vals.append(v)          # absorbing: nothing after it runs
                break
            vals.append(v)
        if not vals:
            return ast.copy_location(ast.Constant(value=is_and), t)
        if len(vals) == 1:
            return vals[0]
        t.values = vals
        return t
    return t


def _fold_constant_tests(fn, log, q):
    """`if <test with literal True/False>` simplified; `if True: A else: B`
    -> A, `if False: A else: B` -> B (exact: a literal has no effect).  A
    `while` header is left alone (`while True` is an idiom)."""
    n = [0]

    def has_bool_const(t):
        return any(isinstance(x, ast.Constant) and isinstance(x.value, bool)
                   for x in ast.walk(t))

    def rec(stmts):
        i = 0
        while i < len(stmts):
            st = stmts[i]
            if isinstance(st, (ast.FunctionDef, ast.AsyncFunctionDef,
                               ast.ClassDef)):
                i += 1
                continue
            if isinstance(st, ast.If) and has_bool_const(st.test):
                # literals in call arguments etc. are not tests: fold only
                # along not / and / or from the top of the test
                st.test = _fold_test(st.test)
                if isinstance(st.test, ast.Constant) and isinstance(
                        st.test.value, bool):
                    repl = st.body if st.test.value else st.orelse
                    if _jump(repl) and i + 1 < len(stmts):
                        # never turn the statements behind the `if` into
                        # dead code: a rule that looks at them would no
                        # longer see the (constant) condition that skips them
                        i += 1
                        continue
                    stmts[i:i + 1] = repl
                    n[0] += 1
                    continue
            for f in ('body', 'orelse', 'finalbody'):
                b = getattr(st, f, None)
                if isinstance(b, list) and b and isinstance(b[0], ast.stmt):
                    rec(b)
                    if not b and f == 'body':
                        b.append(ast.copy_location(ast.Pass(), st))
            if isinstance(st, ast.Try):
                for h in st.handlers:
                    rec(h.body)
                    if not h.body:
                        h.body.append(ast.copy_location(ast.Pass(), st))
            i += 1
    before = ast.dump(fn)
    rec(fn.body)
    if not fn.body:
        fn.body.append(ast.Pass())
    if ast.dump(fn) != before:
        log.append('%s: literal True/False in %s test(s) folded'
                   % (q, 'if'))
    ast.fix_missing_locations(fn)


def _callee_loop_towards_ref(st, items, rf):
    """`for m in (self.a, self.b, ...): m(args)` -- a loop over a display of
    callables (bound methods / functions named by pure look-ups) whose
    variable is used only as the callee: the size limit of the unroller does
    not apply when every call the unrolled copies make is a call the recorded
    function makes itself (text of the whole call in its call multiset), i.e.
    the loop is a bundling of recorded call statements."""
    if not isinstance(st.target, ast.Name) or not (1 <= len(items) <= 16):
        return False
    v = st.target.id
    if not all(isinstance(e, (ast.Attribute, ast.Name)) and _pure_lookup(e)
               for e in items):
        return False
    callee_ids = {id(c.func) for s_ in st.body for c in ast.walk(s_)
                  if isinstance(c, ast.Call) and isinstance(c.func, ast.Name)
                  and c.func.id == v}
    occ = [x for s_ in st.body for x in ast.walk(s_)
           if isinstance(x, ast.Name) and x.id == v]
    if not occ or any(id(x) not in callee_ids for x in occ):
        return False
    ref_calls = rf.get('calls', {})
    for e in items:
        for s_ in st.body:
            for c in ast.walk(s_):
                if isinstance(c, ast.Call) and id(c.func) in callee_ids:
                    cp = copy.deepcopy(c)
                    cp.func = copy.deepcopy(e)
                    if _n(cp) not in ref_calls:
                        return False
    return True


def _filtered_list_truth_uses(fn, h, loop, g0):
    """`L = [x for x in (A, B, C) if c(x)]` read by `for v in L` (`loop`):
    the other reads of L, as [(holder node, field)], when every one of them
    only asks whether L is empty (`if L`, `while L`, `.. if L else ..`,
    `not L`); None when L is read in any other way.  Without other reads: [].
    With other reads the filter is re-evaluated where L was read, so it must
    be a comparison of the element with a constant (`x is not None`) and the
    elements must be look-ups that nothing in the function stores to."""
    name = loop.iter.id
    reads = [x for x in _own_nodes(fn) if isinstance(x, ast.Name)
             and x.id == name and x is not loop.iter
             and isinstance(x.ctx, ast.Load)]
    if len([x for x in ast.walk(fn) if isinstance(x, ast.Name)
            and x.id == name]) != len(reads) + 2:
        return None         # (also: read by a nested function)
    if not reads:
        return []
    holders = []
    for n in _own_nodes(fn):
        if isinstance(n, (ast.If, ast.While, ast.IfExp)) and n.test in reads:
            holders.append((n, 'test'))
        elif isinstance(n, ast.UnaryOp) and isinstance(n.op, ast.Not) and \
                n.operand in reads:
            holders.append((n, 'operand'))
    if len(holders) != len(reads):
        return None
    if any(getattr(x, 'lineno', 0) <= h[2].lineno for x in reads):
        return None
    if len(g0.ifs) != 1:
        return None
    c = g0.ifs[0]
    if not (isinstance(c, ast.Compare) and len(c.ops) == 1 and
            isinstance(c.left, ast.Name) and c.left.id == g0.target.id and
            isinstance(c.comparators[0], ast.Constant)):
        return None
    items = _literal_items(g0.iter)
    if items is None or not all(_pure_lookup(e) for e in items):
        return None
    texts = set()
    for e in items:
        texts |= _chain_texts(e) | _names(e)
    for n in _own_nodes(fn):
        tg = []
        if isinstance(n, ast.Assign):
            tg = n.targets
        elif isinstance(n, (ast.AugAssign, ast.AnnAssign, ast.For)):
            tg = [n.target]
        elif isinstance(n, ast.Delete):
            tg = n.targets
        elif isinstance(n, ast.withitem) and n.optional_vars is not None:
            tg = [n.optional_vars]
        elif isinstance(n, ast.NamedExpr):
            tg = [n.target]
        for t in tg:
            for x in ast.walk(t):
                if isinstance(x, (ast.Name, ast.Attribute, ast.Subscript)) \
                        and not isinstance(x.ctx, ast.Load) and \
                        _n(x) in texts:
                    return None
    return holders


def _unroll_literal_loops(fn, rf, log, q):
    # to a fixpoint: a copy may contain a loop that is literal only now (the
    # iterable was a loop variable of the unrolled loop), and a loop around
    # an unrolled one may have lost the `continue` that kept it from being
    # unrolled
    for _ in range(6):
        n0 = len(log)
        _unroll_literal_loops_once(fn, rf, log, q)
        if len(log) == n0:
            break


def _star_split(target):
    """(names before the starred element, its name, names after) of a tuple
    target `a, *rest, z` with plain names; None otherwise."""
    if not isinstance(target, ast.Tuple):
        return None
    st = [k for k, e in enumerate(target.elts) if isinstance(e, ast.Starred)]
    if len(st) != 1 or not isinstance(target.elts[st[0]].value, ast.Name):
        return None
    pre, post = target.elts[:st[0]], target.elts[st[0] + 1:]
    if not all(isinstance(e, ast.Name) for e in pre + post):
        return None
    names = [e.id for e in pre] + [target.elts[st[0]].value.id] + \
        [e.id for e in post]
    if len(set(names)) != len(names):
        return None
    return [e.id for e in pre], target.elts[st[0]].value.id, \
        [e.id for e in post]


def _unroll_literal_loops_once(fn, rf, log, q):
    ref_loops = {i for t, i in rf.get('loops', [])}
    for blk in _blocks(fn):
        i = 0
        while i < len(blk):
            st = blk[i]
            if isinstance(st, ast.For) and not st.orelse and \
                    _n(st.iter) not in ref_loops and \
                    isinstance(st.target, (ast.Name, ast.Tuple)):
                items = _literal_items(st.iter)
                filt = None
                filtered_local = None
                if items is None and isinstance(st.iter, ast.Name):
                    # for v in L  with  L = [x for x in (A, B, C) if c(x)]
                    h = _single_assign(fn, st.iter.id)
                    if h is not None and isinstance(h[2].value, ast.ListComp):
                        lc = h[2].value
                        g0 = lc.generators[0] if len(lc.generators) == 1 \
                            else None
                        truth_uses = None
                        if g0 is not None and isinstance(
                                g0.target, ast.Name) and isinstance(
                                    lc.elt, ast.Name) and \
                                lc.elt.id == g0.target.id and \
                                len(g0.ifs) <= 1:
                            truth_uses = _filtered_list_truth_uses(
                                fn, h, st, g0)
                        if truth_uses is not None:
                            items = _literal_items(g0.iter)
                            if items is not None:
                                filt = (g0.target.id, g0.ifs[0]) \
                                    if g0.ifs else None
                                filtered_local = h
                tnames = [st.target.id] if isinstance(st.target, ast.Name) \
                    else [e.id for e in st.target.elts
                          if isinstance(e, ast.Name)]
                star = _star_split(st.target)
                if star is not None:
                    tnames = star[0] + [star[1]] + star[2]
                body = _guard_continues(st.body) if items is not None \
                    else None
                ok = items is not None and body is not None and \
                    (0 <= len(items) <= 4 or _callee_loop_towards_ref(
                        st, items, rf)) and tnames and not (
                        set(tnames) & _names(ast.Module(
                            body=st.body, type_ignores=[]), ast.Store))
                if ok and star is not None:
                    # `for a, *rest, z in ((..), (..))`: every item is a
                    # display with enough elements; `rest` is a fresh list
                    # per iteration -- it may be replaced by a list display
                    # only where the object itself is unobservable: every
                    # occurrence in the body is the iterable of a `for`
                    iters = {id(x.iter) for s_ in st.body
                             for x in ast.walk(s_) if isinstance(x, ast.For)}
                    occ = [x for s_ in st.body for x in ast.walk(s_)
                           if isinstance(x, ast.Name) and x.id == star[1]]
                    ok = all(isinstance(c_, (ast.Tuple, ast.List)) and
                             len(c_.elts) >= len(star[0]) + len(star[2]) and
                             not any(isinstance(e_, ast.Starred)
                                     for e_ in c_.elts)
                             for c_ in items) and all(
                                 id(x) in iters for x in occ)
                elif ok and isinstance(st.target, ast.Tuple):
                    ok = len(tnames) == len(st.target.elts) and all(
                        isinstance(c_, (ast.Tuple, ast.List)) and
                        len(c_.elts) == len(tnames) for c_ in items)
                if ok:
                    # locals of the body that die with the iteration get one
                    # name per copy
                    after = set()
                    for s_ in blk[i + 1:]:
                        after |= _names(s_)
                    before = set()
                    for s_ in blk[:i]:
                        before |= _names(s_)
                    blocal = _names(ast.Module(body=body, type_ignores=[]),
                                    ast.Store) - after - before - set(
                                        fn.args.args and [a.arg for a in
                                                          fn.args.args] or [])
                    # a name also read before being written in the body is
                    # loop-carried: keep it
                    carried = {x.id for x in _exposed_simple(body)}
                    blocal -= carried
                    new = []
                    for k, c_ in enumerate(items):
                        sub = {tnames[0]: c_} if isinstance(
                            st.target, ast.Name) else dict(zip(tnames,
                                                               c_.elts))
                        if star is not None:
                            npre, npost = len(star[0]), len(star[2])
                            sub = dict(zip(star[0], c_.elts[:npre]))
                            sub.update(zip(star[2], c_.elts[len(c_.elts)
                                                            - npost:]))
                            sub[star[1]] = ast.List(
                                elts=list(c_.elts[npre:len(c_.elts) - npost]),
                                ctx=ast.Load())
                        ren = {n_: '%s__%d' % (n_, k) for n_ in blocal}
                        copies = []
                        for s_ in body:
                            cp = copy.deepcopy(s_)
                            cp = _Subst(sub).visit(cp)
                            for x in ast.walk(cp):
                                if isinstance(x, ast.Name) and x.id in ren:
                                    x.id = ren[x.id]
                            copies.append(cp)
                        if filt is not None:
                            cond = _Subst({filt[0]: c_}).visit(
                                copy.deepcopy(filt[1]))
                            copies = [ast.copy_location(ast.If(
                                test=cond, body=copies, orelse=[]), st)]
                        new += copies
                    blk[i:i + 1] = new or (
                        [ast.copy_location(ast.Pass(), st)]
                        if len(blk) == 1 else [])
                    if filtered_local is not None:
                        fb, fk, fs = filtered_local
                        if fs in fb:
                            fb.remove(fs)
                        for holder, field in truth_uses:
                            # `L` as a truth value: some element passes the
                            # filter
                            setattr(holder, field, ast.copy_location(
                                ast.BoolOp(op=ast.Or(), values=[
                                    _Subst({filt[0]: c_}).visit(
                                        copy.deepcopy(filt[1]))
                                    for c_ in items]),
                                getattr(holder, field)))
                            log.append('%s: truth value of the filtered list '
                                       '%s spelled as the filter over its '
                                       'elements' % (q, _n(st.iter)))
                    log.append('%s: literal loop `for %s in %s` unrolled'
                               % (q, _n(st.target), _n(st.iter)))
                    i += len(new)
                    continue
            i += 1
    ast.fix_missing_locations(fn)


def _fuse_rebound_lookups(fn, rf, log, q):
    """`x = A; x = x[k]`  ->  `x = A[k]` for two adjacent plain bindings of a
    local the reference does not know, A and the second value both pure
    look-ups (attribute / subscript chains): a walk down a container written
    as repeated re-binding (typically an unrolled `for k in path: x = x[k]`).
    Exact: A has no effect and is evaluated once in both forms."""
    known = set(rf.get('locals', [])) | set(rf.get('params', []))
    n = 0
    for blk in _blocks(fn):
        i = 0
        while i + 1 < len(blk):
            a, b = blk[i], blk[i + 1]
            if isinstance(a, ast.Assign) and isinstance(b, ast.Assign) and \
                    len(a.targets) == 1 and len(b.targets) == 1 and \
                    isinstance(a.targets[0], ast.Name) and \
                    isinstance(b.targets[0], ast.Name) and \
                    a.targets[0].id == b.targets[0].id and \
                    a.targets[0].id not in known and \
                    _pure_lookup(a.value) and _pure_lookup(b.value) and \
                    not isinstance(b.value, ast.Name) and \
                    a.targets[0].id in _names(b.value):
                b.value = _Subst({a.targets[0].id: a.value}).visit(b.value)
                del blk[i]
                n += 1
                continue
            i += 1
    if n:
        log.append('%s: %d re-bound look-up step(s) `x = A; x = x[k]` fused'
                   % (q, n))
        ast.fix_missing_locations(fn)


def _exposed_simple(body):
    """Names read in a statement list before any (textually earlier) plain
    store to them: values carried into the list."""
    out, defined = [], set()
    for st in body:
        aug = {id(n.target) for n in ast.walk(st)
               if isinstance(n, ast.AugAssign)}
        # within one simple statement the value side is read first
        names = [n for n in ast.walk(st) if isinstance(n, ast.Name)]
        names.sort(key=lambda n: (n.lineno, n.col_offset))
        stores_here = []
        for x in names:
            if isinstance(x.ctx, ast.Load) or id(x) in aug:
                if x.id not in defined:
                    out.append(x)
            if isinstance(x.ctx, ast.Store) and id(x) not in aug:
                stores_here.append(x)
                if isinstance(st, (ast.If, ast.For, ast.While, ast.With,
                                   ast.Try)):
                    defined.add(x.id)      # positional order inside blocks
        for x in stores_here:
            defined.add(x.id)
    return out


# ---------------------------------------------------------------------------
# T: temporaries and renames

def _single_assign(fn, name):
    """The one Assign statement binding `name` (plain Name target), with its
    block and position, or None."""
    hits = []
    for blk in _blocks(fn):
        for i, st in enumerate(blk):
            if isinstance(st, ast.Assign) and len(st.targets) == 1 and \
                    isinstance(st.targets[0], ast.Name) and \
                    st.targets[0].id == name:
                hits.append((blk, i, st))
    stores = [x for x in _own_nodes(fn) if isinstance(x, ast.Name)
              and x.id == name and isinstance(x.ctx, (ast.Store, ast.Del))]
    if len(hits) == 1 and len(stores) == 1:
        return hits[0]
    return None


def _inline_temp(fn, name, allow_calls=False, ref_calls=None,
                 iter_only=False):
    h = _single_assign(fn, name)
    if h is None:
        return False
    blk, i, st = h
    val = st.value
    has_call = any(isinstance(x, ast.Call) for x in ast.walk(val))
    loads = [x for x in _own_nodes(fn) if isinstance(x, ast.Name)
             and x.id == name and isinstance(x.ctx, ast.Load)]
    if not loads:
        return False
    # an object that is mutated through the local is not a value: never
    # duplicate it -- unless the local merely aliases an existing container
    # (attribute / constant-key / scalar-index look-up chain), in which case
    # every spelling denotes the same object
    alias_of_existing = _pure_lookup(val) and all(
        isinstance(x.slice, (ast.Constant, ast.Name))
        for x in ast.walk(val) if isinstance(x, ast.Subscript))
    for n in ([] if alias_of_existing else _own_nodes(fn)):
        if isinstance(n, ast.Call) and isinstance(n.func, ast.Attribute) and \
                isinstance(n.func.value, ast.Name) and \
                n.func.value.id == name:
            return False
        if isinstance(n, (ast.Subscript, ast.Attribute)) and isinstance(
                getattr(n, 'ctx', None), (ast.Store, ast.Del)):
            r_ = n.value
            while isinstance(r_, (ast.Subscript, ast.Attribute)):
                r_ = r_.value
            if isinstance(r_, ast.Name) and r_.id == name:
                return False
        if isinstance(n, ast.AugAssign):
            r_ = n.target
            while isinstance(r_, (ast.Subscript, ast.Attribute)):
                r_ = r_.value
            if isinstance(r_, ast.Name) and r_.id == name:
                return False
    # ... nor an object that is changed in place through a local alias of
    # the temporary (`row = t[-1, :]; row += ...`: a view on the same array)
    if not alias_of_existing and len(loads) > 1 and \
            name in _mutated_through(list(fn.body), {name}):
        return False
    if isinstance(val, (ast.List, ast.Dict, ast.Set, ast.ListComp,
                        ast.DictComp, ast.SetComp)) and len(loads) > 1 \
            and not iter_only:
        # (iter_only: the caller has established that every load is the
        # iterable of a `for` and the display holds constants only)
        return False
    if has_call and len(loads) > 1 and not allow_calls:
        return False
    if has_call and len(loads) > 1:
        calls = [x for x in ast.walk(val) if isinstance(x, ast.Call)]
        if len(calls) != 1 or calls[0] is not val or not all(
                _pure_lookup(a_) for a_ in val.args) or val.keywords or \
                not isinstance(val.func, ast.Attribute):
            return False
        # only towards a recorded form: the reference repeats this call
        if (ref_calls or {}).get(_n(val), 0) < len(loads):
            return False
    # all uses come after the definition, in its block or nested in a later
    # statement of its block
    later = blk[i + 1:]
    inside = set()
    for s_ in later:
        inside |= {id(x) for x in ast.walk(s_)}
    if any(id(x) not in inside for x in loads):
        return False
    # operands are not re-bound between the definition and the last use
    operands = _names(val)
    roots = {_n(x) for x in ast.walk(val) if isinstance(
        x, (ast.Attribute, ast.Subscript))}
    last = max(x.lineno for x in loads)
    load_ids = {id(x) for x in loads}
    # `self.<obj>` for every chain self.<obj>.<attr>... read by the value
    # (property reads only: the callee look-up of `self.core.getter(i)` is
    # not a read of state)
    sub_objects = set()
    callee_ids = {id(c.func) for c in ast.walk(val)
                  if isinstance(c, ast.Call)}
    for x in ast.walk(val):
        if isinstance(x, ast.Attribute) and isinstance(x.value, ast.Attribute) \
                and isinstance(x.value.value, ast.Name) and \
                x.value.value.id == 'self' and id(x) not in callee_ids:
            sub_objects.add('self.' + x.value.attr)
    for s_ in later:
        if s_.lineno > last:
            break
        scan = s_
        if isinstance(s_, (ast.If, ast.For)):
            # the header of an if / for is evaluated once, before the body:
            # when it holds the last uses, stores in the body come later
            hdr = s_.test if isinstance(s_, ast.If) else s_.iter
            in_hdr = {id(x) for x in ast.walk(hdr)} & load_ids
            in_stmt = {id(x) for x in ast.walk(s_)} & load_ids
            after = [x for t_ in later if t_.lineno > s_.lineno
                     for x in ast.walk(t_) if id(x) in load_ids]
            if in_stmt and in_stmt == in_hdr and not after:
                scan = hdr
        for x in ast.walk(scan):
            if isinstance(x, ast.Name) and isinstance(x.ctx, ast.Store) and \
                    x.id in operands:
                return False
            if isinstance(x, (ast.Attribute, ast.Subscript)) and isinstance(
                    getattr(x, 'ctx', None), ast.Store) and _n(x) in roots:
                return False
            # a property of a mutable sub-object (self.duct.thermal_
            # conductivity) is not repeatable across a call that updates that
            # sub-object: `self.duct.update(T)`, or a method of self named
            # after it (`self._update_duct(T)`)
            if isinstance(x, ast.Call) and isinstance(x.func, ast.Attribute) \
                    and sub_objects:
                recv = _n(x.func.value)
                if any(recv == so or recv.startswith(so + '.')
                       or recv.startswith(so + '[') for so in sub_objects):
                    return False
                if recv == 'self' and any(
                        so.split('.')[-1].strip('_') and
                        so.split('.')[-1].strip('_') in x.func.attr
                        for so in sub_objects):
                    return False
    # a definition inside a loop used after the loop: leave alone
    for k, s_ in enumerate(later):
        blk[i + 1 + k] = _Subst({name: val}).visit(s_)
    del blk[i]
    return True


def _rename(fn, mapping):
    for n in ast.walk(fn):
        if isinstance(n, ast.Name) and n.id in mapping:
            n.id = mapping[n.id]
        elif isinstance(n, ast.arg) and n.arg in mapping:
            n.arg = mapping[n.arg]
        elif isinstance(n, (ast.FunctionDef, ast.AsyncFunctionDef)) and \
                n is not fn and n.name in mapping:
            n.name = mapping[n.name]    # a nested def binds a local as well


import re as _re


def _mask(text, name):
    """Replace the identifier `name` (not inside string literals) by @."""
    out = []
    for k, part in enumerate(_re.split(r"('(?:[^'\\\\]|\\\\.)*'|\"(?:[^\"\\\\]|\\\\.)*\")",
                                       text)):
        if k % 2 == 0:
            part = _re.sub(r'(?<![\w.])%s(?!\w)' % _re.escape(name), '@',
                           part)
        out.append(part)
    return ''.join(out)


def _shape(text, names):
    """Definition text with every identifier of `names` masked."""
    out = text
    for nm in sorted(names, key=len, reverse=True):
        out = _mask(out, nm)
    return out


def _pure_lookup(e):
    """Attribute / subscript chain with name or constant indices: a hoisted
    lookup."""
    if isinstance(e, ast.Name):
        return True
    if isinstance(e, ast.Attribute):
        return _pure_lookup(e.value)
    if isinstance(e, ast.Subscript):
        sl = e.slice
        parts = sl.elts if isinstance(sl, ast.Tuple) else [sl]
        return _pure_lookup(e.value) and all(
            isinstance(p_, (ast.Constant, ast.Name)) or (
                isinstance(p_, ast.UnaryOp) and isinstance(
                    p_.operand, ast.Constant)) or _pure_lookup(p_)
            for p_ in parts)
    return False


def _live_range(fn, name):
    lines = [x.lineno for x in _own_nodes(fn) if isinstance(x, ast.Name)
             and x.id == name]
    return (min(lines), max(lines)) if lines else (0, 0)


# ---------------------------------------------------------------------------
# S: sequences taken apart / bundled differently than recorded

_SEQ_OPS = (ast.Add, ast.Mult, ast.Div)


def _in_try(fn):
    """ids of the nodes that lie inside a try statement of the function."""
    out = set()
    for n in _own_nodes(fn):
        if isinstance(n, ast.Try):
            out |= {id(x) for x in ast.walk(n)}
    return out



def _explode_dict_displays(fn, rf, log, q):
    """T = {'a': x, 'b': y}  ->  T = {}; T['a'] = x; T['b'] = y   where the
    reference stores T['a'], T['b'] key by key."""
    rstores = set(rf.get('stores', []))
    if not rstores:
        return
    for blk in _blocks(fn):
        i = 0
        while i < len(blk):
            st = blk[i]
            if isinstance(st, ast.Assign) and len(st.targets) == 1 and \
                    isinstance(st.value, ast.Dict) and st.value.keys and all(
                        isinstance(k, ast.Constant) and isinstance(
                            k.value, str) for k in st.value.keys):
                tt = _n(st.targets[0])
                keyed = ["%s['%s']" % (tt, k.value) for k in st.value.keys]
                if all(k_ in rstores for k_ in keyed):
                    new = [ast.Assign(targets=st.targets,
                                      value=ast.Dict(keys=[], values=[]))]
                    for k, v in zip(st.value.keys, st.value.values):
                        base = copy.deepcopy(st.targets[0])
                        base.ctx = ast.Load()
                        new.append(ast.Assign(targets=[ast.Subscript(
                            value=base, slice=k, ctx=ast.Store())], value=v))
                    for n_ in new:
                        for x in ast.walk(n_):
                            ast.copy_location(x, st)
                    blk[i:i + 1] = new
                    log.append('%s: dict display for %s restored to keyed '
                               'stores' % (q, tt))
                    i += len(new)
                    continue
            i += 1
    ast.fix_missing_locations(fn)


def _dictcomps_to_loops(fn, rf, log, q):
    """T = {k: v for i, k in enumerate(S)}  ->  T = {}; for i in
    range(len(S)): T[S[i]] = v   where the reference has that loop."""
    ref_iters = {}
    for tg, it in rf.get('loops', []):
        ref_iters.setdefault(it, []).append(tg)
    if not ref_iters:
        return
    for blk in _blocks(fn):
        i = 0
        while i < len(blk):
            st = blk[i]
            if isinstance(st, ast.Assign) and len(st.targets) == 1 and \
                    isinstance(st.value, ast.DictComp) and \
                    len(st.value.generators) == 1 and \
                    not st.value.generators[0].ifs:
                g = st.value.generators[0]
                seq = idx = key = None
                if isinstance(g.iter, ast.Call) and _n(g.iter.func) == \
                        'enumerate' and len(g.iter.args) == 1 and \
                        not g.iter.keywords and \
                        isinstance(g.target, ast.Tuple) and \
                        len(g.target.elts) == 2 and all(
                            isinstance(e, ast.Name) for e in g.target.elts):
                    seq = g.iter.args[0]
                    idx, key = (e.id for e in g.target.elts)
                elif isinstance(g.target, ast.Name):
                    seq = g.iter
                    key = g.target.id
                if seq is not None:
                    hdr = 'range(len(%s))' % _n(seq)
                    if hdr in ref_iters:
                        iname = idx or _free_index_name(fn, st,
                                                        ref_iters[hdr])
                        if iname:
                            elem = ast.Subscript(
                                value=copy.deepcopy(seq), slice=ast.Name(
                                    id=iname, ctx=ast.Load()),
                                ctx=ast.Load())
                            sub = {key: elem}
                            k_ = _Subst(sub).visit(copy.deepcopy(
                                st.value.key))
                            v_ = _Subst(sub).visit(copy.deepcopy(
                                st.value.value))
                            tgt = copy.deepcopy(st.targets[0])
                            tgt.ctx = ast.Load()
                            store = ast.Assign(targets=[ast.Subscript(
                                value=tgt, slice=k_, ctx=ast.Store())],
                                value=v_)
                            loop = ast.For(
                                target=ast.Name(id=iname, ctx=ast.Store()),
                                iter=ast.parse(hdr, mode='eval').body,
                                body=[store], orelse=[])
                            init = ast.Assign(targets=st.targets,
                                              value=ast.Dict(keys=[],
                                                             values=[]))
                            for n_ in (init, loop):
                                ast.copy_location(n_, st)
                                for x in ast.walk(n_):
                                    ast.copy_location(x, st)
                            blk[i:i + 1] = [init, loop]
                            log.append('%s: dict comprehension for %s '
                                       'restored to a keyed-store loop'
                                       % (q, _n(st.targets[0])))
                            i += 2
                            continue
            i += 1
    ast.fix_missing_locations(fn)


def _recorded_bound_name(comp, texts):
    """The bound variable w of a recorded comprehension (one of `texts`)
    that `comp` equals once its own bound variable is renamed to w; None if
    there is none.  Alpha-renaming is sound because w occurs nowhere in
    `comp` and every occurrence of the old name inside `comp` is renamed."""
    if len(comp.generators) != 1 or not isinstance(
            comp.generators[0].target, ast.Name):
        return None
    v = comp.generators[0].target.id
    if v in _names(comp.generators[0].iter):
        return None
    used = _names(comp)
    for t in sorted(texts):
        try:
            node = ast.parse(t, mode='eval').body
        except SyntaxError:
            continue
        if type(node) is not type(comp) or len(node.generators) != 1 or \
                not isinstance(node.generators[0].target, ast.Name):
            continue
        w = node.generators[0].target.id
        if w == v or w in used:
            continue
        c2 = copy.deepcopy(comp)
        _rename(c2, {v: w})
        if _n(c2) == t:
            return w
    return None


def _comprehension_vars_to_reference(fn, rf, log, q):
    """A comprehension that the reference spells with another bound variable
    (`[f(asm) for asm in S]` / `[f(a) for a in S]`) gets the recorded name:
    the variable is local to the comprehension, so nothing else reads it."""
    texts = set()
    for t in list(rf.get('calls', {})) + [
            d for ds in rf.get('defs', {}).values() for d in ds]:
        if ' for ' not in t:
            continue
        try:
            node = ast.parse(t, mode='eval').body
        except SyntaxError:
            continue
        for x in ast.walk(node):
            if isinstance(x, (ast.ListComp, ast.SetComp, ast.GeneratorExp)):
                texts.add(_n(x))
    if not texts:
        return
    for c in [x for x in _own_nodes(fn) if isinstance(
            x, (ast.ListComp, ast.SetComp, ast.GeneratorExp))]:
        if _n(c) in texts:
            continue
        w = _recorded_bound_name(c, texts)
        if w is not None:
            v = c.generators[0].target.id
            _rename(c, {v: w})
            log.append('%s: bound variable %s of a comprehension -> %s '
                       '(recorded spelling)' % (q, v, w))


def _loops_to_comprehensions(fn, rf, log, q):
    """`X = []` + `for v in S: X.append(E)`  ->  `X = [E for v in S]` where
    the reference defines X by a comprehension."""
    rdefs = rf.get('defs', {})
    comp_defs = {nm for nm, ds in rdefs.items()
                 if any(d.startswith('[') and ' for ' in d for d in ds)
                 and '[]' not in ds}
    all_comp_texts = {d for ds in rdefs.values() for d in ds
                      if d.startswith('[') and ' for ' in d}
    count_defs = {nm for nm, ds in rdefs.items()
                  if any(d.startswith(('sum(1 for ', 'sum((1 for ')) for d in ds)}
    # comprehensions the reference spells inside a call (`max([... for ...])`)
    for ctext in rf.get('calls', {}):
        if ' for ' not in ctext:
            continue
        try:
            cnode = ast.parse(ctext, mode='eval').body
        except SyntaxError:
            continue
        for x in ast.walk(cnode):
            if isinstance(x, ast.ListComp):
                all_comp_texts.add(_n(x))
    if not all_comp_texts and not count_defs:
        return
    for blk in _blocks(fn):
        i = 0
        while i + 1 < len(blk):
            a, b = blk[i], blk[i + 1]
            # n = 0; for v in S: if c: n += 1   ->   n = sum(1 for v in S if c)
            if count_defs and isinstance(a, ast.Assign) and \
                    len(a.targets) == 1 and isinstance(
                        a.targets[0], ast.Name) and isinstance(
                            a.value, ast.Constant) and a.value.value == 0 \
                    and isinstance(b, ast.For) and not b.orelse and \
                    len(b.body) == 1 and isinstance(b.body[0], ast.If) and \
                    not b.body[0].orelse and len(b.body[0].body) == 1:
                inc = b.body[0].body[0]
                x = a.targets[0].id
                if isinstance(inc, ast.AugAssign) and isinstance(
                        inc.op, ast.Add) and _n(inc.target) == x and \
                        isinstance(inc.value, ast.Constant) and \
                        inc.value.value == 1:
                    gen = ast.GeneratorExp(
                        elt=ast.Constant(value=1),
                        generators=[ast.comprehension(
                            target=b.target, iter=b.iter,
                            ifs=[b.body[0].test], is_async=0)])
                    a.value = ast.copy_location(ast.Call(
                        func=ast.Name(id='sum', ctx=ast.Load()), args=[gen],
                        keywords=[]), a.value)
                    del blk[i + 1]
                    log.append('%s: counting loop for %s restored to '
                               'sum(1 for ...)' % (q, x))
                    continue
            if isinstance(a, ast.Assign) and len(a.targets) == 1 and \
                    isinstance(a.targets[0], ast.Name) and isinstance(
                        a.value, ast.List) and not a.value.elts and \
                    isinstance(b, ast.For) and not b.orelse and \
                    len(b.body) == 1:
                x = a.targets[0].id
                inner = b.body[0]
                cond = None
                if isinstance(inner, ast.If) and not inner.orelse and \
                        len(inner.body) == 1:
                    cond = inner.test
                    inner = inner.body[0]
                elif isinstance(inner, ast.If) and len(inner.body) == 1 and \
                        len(inner.orelse) == 1:
                    # if c: X.append(a) else: X.append(b)
                    #   -> X.append(a if c else b)   (X a plain local that
                    #   the test and the values do not re-bind)
                    ba, bb = inner.body[0], inner.orelse[0]

                    def _app(s_):
                        return isinstance(s_, ast.Expr) and isinstance(
                            s_.value, ast.Call) and _n(s_.value.func) == \
                            x + '.append' and len(s_.value.args) == 1 and \
                            not s_.value.keywords and not isinstance(
                                s_.value.args[0], ast.Starred)
                    if _app(ba) and _app(bb) and not any(
                            isinstance(y, ast.NamedExpr)
                            for y in ast.walk(inner)):
                        merged = ast.Expr(value=ast.Call(
                            func=copy.deepcopy(ba.value.func),
                            args=[ast.IfExp(test=inner.test,
                                            body=ba.value.args[0],
                                            orelse=bb.value.args[0])],
                            keywords=[]))
                        for y in ast.walk(merged):
                            if not hasattr(y, 'lineno'):
                                ast.copy_location(y, inner)
                        inner = merged
                if isinstance(inner, ast.Expr) and isinstance(
                        inner.value, ast.Call) and _n(inner.value.func) == \
                        x + '.append' and len(inner.value.args) == 1:
                    comp = ast.ListComp(
                        elt=inner.value.args[0],
                        generators=[ast.comprehension(
                            target=b.target, iter=b.iter,
                            ifs=[cond] if cond is not None else [],
                            is_async=0)])
                    bound = None
                    if not (x in comp_defs or _n(comp) in all_comp_texts) \
                            and isinstance(b.target, ast.Name) and \
                            _dead_outside(fn, b, b.target.id):
                        # the recorded comprehension up to the name of its
                        # bound variable (which names nothing outside it)
                        bound = _recorded_bound_name(comp, all_comp_texts)
                    if bound is not None:
                        log.append('%s: loop variable %s -> %s (bound '
                                   'variable of the recorded comprehension)'
                                   % (q, b.target.id, bound))
                        _rename(b, {b.target.id: bound})
                    if x in comp_defs or _n(comp) in all_comp_texts:
                        a.value = ast.copy_location(comp, a.value)
                        del blk[i + 1]
                        log.append('%s: append loop for %s restored to a '
                                   'comprehension' % (q, x))
                        continue
            i += 1
    ast.fix_missing_locations(fn)


def _inline_hoisted(fn, rf, log, q):
    """Inline hoisted lookups the reference does not know (and whose
    definition is not that of a recorded local, i.e. not a rename)."""
    ref_locs = set(rf.get('locals', []))
    ref_def_texts = set()
    for nm, ds in rf.get('defs', {}).items():
        ref_def_texts |= set(ds)
    for _ in range(20):
        params, locs = local_order(fn)
        done = False
        for c_ in locs:
            if c_ in ref_locs:
                continue
            h = _single_assign(fn, c_)
            if h is None or not _pure_lookup(h[2].value) or isinstance(
                    h[2].value, ast.Name):
                continue
            if _n(h[2].value) in ref_def_texts:
                continue            # a renamed recorded local
            allnames = set(locs) | ref_locs
            if _shape(_n(h[2].value), allnames) in {
                    _shape(d, allnames) for nm in ref_locs - set(locs)
                    for d in rf.get('defs', {}).get(nm, [])}:
                continue            # same, with other locals renamed too
            if _inline_temp(fn, c_):
                log.append('%s: hoisted lookup %s inlined' % (q, c_))
                done = True
                break
        if not done:
            return
    ast.fix_missing_locations(fn)


def _locals_forwarded_to_attrs(fn, rf, log, q):
    """`a, b = E; self.x = a; self.y = b; ... a ... b ...`  ->
    `self.x, self.y = E; ... self.x ... self.y ...` (also the one-name form
    `a = E; self.x = a`).  A local the reference does not know that is bound
    once and stored, by the statement(s) directly after its binding, into an
    attribute of `self` is that attribute under another name as long as the
    attribute is stored nowhere else in the function (same assumption as the
    hoisted-lookup step: a look-up on self is pure and repeatable).  Side
    conditions: the forwarding statements follow the binding without anything
    in between and in the order of the bound names (so the attribute stores
    happen in the same order as those of the tuple target); every read of
    the local comes after its forwarding statement, in that block, outside
    lambdas / nested functions; only towards the recorded form: the recorded
    function mentions `self.x`."""
    known = set(rf.get('locals', [])) | set(rf.get('params', []))
    ref_text = ' '.join([t for t, _e, _j in rf.get('tests', [])] +
                        list(rf.get('calls', {})) + rf.get('stores', []) +
                        [d for ds in rf.get('defs', {}).values() for d in ds])

    def attr_text_stores(text):
        return [x for x in ast.walk(fn) if isinstance(x, ast.Attribute) and
                isinstance(x.ctx, (ast.Store, ast.Del)) and _n(x) == text]

    changed = True
    while changed:
        changed = False
        for blk in _blocks(fn):
            for i, st in enumerate(blk):
                if not (isinstance(st, ast.Assign) and len(st.targets) == 1):
                    continue
                tg = st.targets[0]
                slots = [tg] if isinstance(tg, ast.Name) else (
                    list(tg.elts) if isinstance(tg, ast.Tuple) else [])
                names = [e.id if isinstance(e, ast.Name) else None
                         for e in slots]
                if not any(names) or len(set(names)) != len(names):
                    continue
                last_slot = -1
                j = i + 1
                plan = []
                while j < len(blk):
                    fw = blk[j]
                    if not (isinstance(fw, ast.Assign) and len(fw.targets) == 1
                            and isinstance(fw.targets[0], ast.Attribute)
                            and isinstance(fw.targets[0].value, ast.Name)
                            and fw.targets[0].value.id == 'self'
                            and isinstance(fw.value, ast.Name)
                            and fw.value.id in names):
                        break
                    k = names.index(fw.value.id)
                    if k <= last_slot or not all(
                            isinstance(e, ast.Name) for e in slots[k + 1:]):
                        break           # would reorder the attribute stores
                    last_slot = k
                    plan.append((k, fw))
                    j += 1
                if not plan:
                    continue
                later = blk[j:]
                inside = set()
                for s_ in later:
                    inside |= {id(x) for x in ast.walk(s_)}
                deferred = set()
                for x in ast.walk(fn):
                    if x is not fn and isinstance(x, (
                            ast.Lambda, ast.FunctionDef,
                            ast.AsyncFunctionDef, ast.ClassDef)):
                        deferred |= {id(y) for y in ast.walk(x)}
                ok = True
                for k, fw in plan:
                    x_ = names[k]
                    text = _n(fw.targets[0])
                    occ = [n for n in ast.walk(fn) if isinstance(n, ast.Name)
                           and n.id == x_]
                    loads = [n for n in occ if isinstance(n.ctx, ast.Load)
                             and n is not fw.value]
                    if x_ in known or len(occ) != len(loads) + 2 or \
                            any(id(n) not in inside or id(n) in deferred
                                for n in loads) or \
                            len(attr_text_stores(text)) != 1 or \
                            text not in ref_text or \
                            x_ in [a.arg for a in ast.walk(fn.args)
                                   if isinstance(a, ast.arg)]:
                        ok = False
                if not ok:
                    continue
                for k, fw in plan:
                    x_ = names[k]
                    attr = fw.targets[0]
                    new_t = ast.copy_location(ast.Attribute(
                        value=ast.Name(id='self', ctx=ast.Load()),
                        attr=attr.attr, ctx=ast.Store()), slots[k])
                    if isinstance(tg, ast.Name):
                        st.targets[0] = new_t
                    else:
                        tg.elts[k] = new_t
                    rd = ast.Attribute(value=ast.Name(id='self',
                                                      ctx=ast.Load()),
                                       attr=attr.attr, ctx=ast.Load())
                    for m_, s_ in enumerate(later):
                        later[m_] = _Subst({x_: rd}).visit(s_)
                    log.append('%s: local %s forwarded to %s replaced by the '
                               'attribute' % (q, x_, _n(attr)))
                blk[i + 1:] = later
                changed = True
                break
            if changed:
                break
    ast.fix_missing_locations(fn)


def _nonneg_index(fn, sub, nexpr):
    """Side condition of the table rewrite: the index of `X[k]` can never be
    negative where the table has elements (a negative index would wrap
    silently, whereas an index >= len(X) -- and any index into the empty
    table -- fails loudly in the current form).  Accepted: a non-negative int
    constant; the text `N - 1` (negative only when the table is empty); a
    name bound by an enclosing `for k in range(..)` / comprehension generator
    over a one-argument range and not re-bound in its body."""
    k = sub.slice
    if isinstance(k, ast.Constant) and isinstance(k.value, int) and \
            not isinstance(k.value, bool) and k.value >= 0:
        return True
    if _n(k) == '%s - 1' % _n(nexpr) and isinstance(
            nexpr, (ast.Name, ast.Attribute, ast.Subscript, ast.Call)):
        return True
    if not isinstance(k, ast.Name):
        return False
    par = {}
    for p_ in ast.walk(fn):
        for ch in ast.iter_child_nodes(p_):
            par[id(ch)] = p_

    def one_arg_range(it):
        return isinstance(it, ast.Call) and _n(it.func) == 'range' and \
            len(it.args) == 1 and not it.keywords
    x = sub
    while id(x) in par:
        prev, x = x, par[id(x)]
        if isinstance(x, ast.For) and isinstance(x.target, ast.Name) and \
                x.target.id == k.id and any(prev is s_ for s_ in x.body):
            stores = [y for s_ in x.body for y in ast.walk(s_)
                      if isinstance(y, ast.Name) and y.id == k.id
                      and isinstance(y.ctx, (ast.Store, ast.Del))]
            return one_arg_range(x.iter) and not stores
        if isinstance(x, (ast.ListComp, ast.SetComp, ast.GeneratorExp,
                          ast.DictComp)):
            for j_, g_ in enumerate(x.generators):
                if k.id in _names(g_.target):
                    if isinstance(prev, ast.comprehension) and \
                            x.generators.index(prev) <= j_:
                        return False    # read before this generator binds
                    return isinstance(g_.target, ast.Name) and \
                        one_arg_range(g_.iter)
        if isinstance(x, (ast.FunctionDef, ast.AsyncFunctionDef, ast.Lambda)):
            return False
        if isinstance(x, ast.stmt) and any(
                isinstance(y, ast.Name) and y.id == k.id and isinstance(
                    y.ctx, (ast.Store, ast.Del)) for y in ast.walk(x)) and \
                not isinstance(x, ast.For):
            return False
    return False


_PURE_ELT = (ast.Name, ast.Attribute, ast.Subscript, ast.Constant, ast.Compare,
             ast.BinOp, ast.UnaryOp, ast.BoolOp, ast.Slice, ast.Tuple,
             ast.expr_context, ast.operator, ast.unaryop, ast.cmpop,
             ast.boolop)


def _truth_context_names(fn):
    """ids of the Name nodes that are read only for their truth value: the
    test of if / while / conditional expression / assert, the operand of
    `not`, an operand of and/or that is itself in such a position."""
    out = set()

    def mark(e):
        if isinstance(e, ast.Name):
            out.add(id(e))
        elif isinstance(e, ast.BoolOp):
            for v in e.values:
                mark(v)
    for n in _own_nodes(fn):
        if isinstance(n, (ast.If, ast.While, ast.IfExp, ast.Assert)):
            mark(n.test)
        elif isinstance(n, ast.UnaryOp) and isinstance(n.op, ast.Not):
            mark(n.operand)
        elif isinstance(n, ast.comprehension):
            for c in n.ifs:
                mark(c)
    return out


def _is_test_expr(e):
    """A comparison, or not / and / or over comparisons."""
    if isinstance(e, ast.Compare):
        return True
    if isinstance(e, ast.UnaryOp) and isinstance(e.op, ast.Not):
        return _is_test_expr(e.operand)
    if isinstance(e, ast.BoolOp):
        return all(_is_test_expr(v) for v in e.values)
    return False


def _flags_from_tests(fn, rf, log, q):
    """x = <comparison>   ->   x = False; if <comparison>: x = True
    when the reference sets a flag that way under the very same test.  Side
    conditions: the statement is the only binding of x in the function, the
    right-hand side is built from comparisons only, the reference has an
    `if` with that test text and a local defined by exactly {False, True},
    and x is read only for its truth value (so that the comparison's result
    object and the constant True / False cannot be told apart).  The
    comparison is still evaluated exactly once, at the same place."""
    ref_flags = {nm for nm, ds in rf.get('defs', {}).items()
                 if set(ds) == {'True', 'False'}}
    if not ref_flags:
        return
    ref_tests = {t[0] for t in rf.get('tests', [])}
    params, locs = local_order(fn)
    for blk in _blocks(fn):
        for i, st in enumerate(list(blk)):
            if not (isinstance(st, ast.Assign) and len(st.targets) == 1 and
                    isinstance(st.targets[0], ast.Name) and
                    _is_test_expr(st.value)):
                continue
            x = st.targets[0].id
            if x in params or _n(st.value) not in ref_tests:
                continue
            if not (x in ref_flags or (ref_flags - set(locs)
                                       and x not in rf.get('locals', []))):
                continue
            if sum(1 for n in ast.walk(fn) if isinstance(n, ast.Name) and
                   n.id == x and isinstance(n.ctx, (ast.Store, ast.Del))) != 1:
                continue
            if any(isinstance(n, (ast.Global, ast.Nonlocal)) and x in n.names
                   for n in ast.walk(fn)):
                continue
            truth = _truth_context_names(fn)
            reads = [n for n in ast.walk(fn) if isinstance(n, ast.Name) and
                     n.id == x and isinstance(n.ctx, ast.Load)]
            if not reads or any(id(n) not in truth for n in reads):
                continue
            init = ast.copy_location(ast.Assign(
                targets=[ast.Name(id=x, ctx=ast.Store())],
                value=ast.Constant(value=False)), st)
            setit = ast.copy_location(ast.Assign(
                targets=[ast.Name(id=x, ctx=ast.Store())],
                value=ast.Constant(value=True)), st)
            cond = ast.copy_location(ast.If(test=st.value, body=[setit],
                                            orelse=[]), st)
            k = next(j for j, s_ in enumerate(blk) if s_ is st)
            blk[k:k + 1] = [init, cond]
            log.append('%s: flag %s = %s written as False / if-test: True'
                       % (q, x, _n(st.value)))
    ast.fix_missing_locations(fn)


def _inline_literal_iterables(fn, rf, log, q):
    """K = ['a', 'b', ...] hoisted out of `for p in K:` headers -> the
    display back in the header(s), where the reference iterates over exactly
    that display.  Side conditions: K is bound once, to a list/tuple display
    of constants; *every* occurrence of K (nested functions included) other
    than the binding is the iterable of a `for` statement, so the object is
    never mutated, aliased or passed on and a fresh equal display per
    evaluation of the header is indistinguishable; the binding precedes the
    loops in its own block (checked by _inline_temp)."""
    ref_locs = set(rf.get('locals', []))
    ref_iters = {it for _t, it in rf.get('loops', [])}
    for _ in range(20):
        params, locs = local_order(fn)
        done = False
        for c_ in locs:
            if c_ in ref_locs:
                continue
            h = _single_assign(fn, c_)
            if h is None:
                continue
            val = h[2].value
            if not (isinstance(val, (ast.List, ast.Tuple)) and val.elts and
                    all(isinstance(e, ast.Constant) for e in val.elts)):
                continue
            disp = ast.List(elts=list(val.elts), ctx=ast.Load())
            if _n(disp) not in ref_iters:
                continue
            iters = {id(x.iter) for x in _own_nodes(fn)
                     if isinstance(x, ast.For)}
            occ = [x for x in ast.walk(fn) if isinstance(x, ast.Name)
                   and x.id == c_]
            loads = [x for x in occ if isinstance(x.ctx, ast.Load)]
            if len(occ) != len(loads) + 1 or not loads or \
                    any(id(x) not in iters for x in loads):
                continue
            h[2].value = ast.copy_location(disp, val)
            if _inline_temp(fn, c_, iter_only=True):
                log.append('%s: literal key list %s inlined into its loop '
                           'header(s)' % (q, c_))
                done = True
                break
            h[2].value = val
        if not done:
            break
    ast.fix_missing_locations(fn)


def _pipeline_to_locals(fn, rf, log, q):
    """A conditional pipeline of one-argument callables

        L = []
        [if c1:] L.append(E1)
        [if c2:] L.append(E2)
        ...
        for f in L:
            x = f(x)

    -> one local per step that defaults to the identity (the recorded form
    of such code: `g1 = identity; if c1: g1 = E1; ...; x = g2(g1(x))`):

        def L__1(v): return v
        L__2 = L__1
        [if c1:] L__1 = E1
        [if c2:] L__2 = E2
        ...
        x = L__2(L__1(x))

    Side conditions, all syntactic: L is bound exactly once, to an empty
    list display, in a block B; every other occurrence of L in the function
    (nested functions included) is either an expression statement
    `L.append(E)` that lies in B after the binding, directly or inside
    `if` statements only (never in a loop / try / with / nested function, so
    it runs at most once and the appends run in source order), or the
    iterable of a `for f in L:` statement that lies in a statement of B after
    the last statement containing an append (so it sees the complete list)
    and whose body is the single statement `x = f(x)`; f occurs nowhere
    else; x, f and L are distinct names.  Each E_k is evaluated at the same
    point and under the same conditions as before; a step that was not
    appended is the identity, which returns its argument itself.  Applied
    only when the reference binds every E_k (up to renamed locals) to a
    local, i.e. towards the recorded form."""
    ref_locs = set(rf.get('locals', []))
    params, locs = local_order(fn)
    allnames = set(locs) | ref_locs | set(params)
    ref_shapes = {_shape(d, allnames) for ds in rf.get('defs', {}).values()
                  for d in ds}
    for L in locs:
        if L in ref_locs:
            continue
        h = _single_assign(fn, L)
        if h is None:
            continue
        blk, i0, st0 = h
        if not (isinstance(st0.value, ast.List) and not st0.value.elts):
            continue
        occ = [x for x in ast.walk(fn) if isinstance(x, ast.Name)
               and x.id == L and x is not st0.targets[0]]
        if not occ:
            continue
        accounted = set()
        appends = []        # (index in blk, owner block, Expr stmt)
        loops = []          # (index in blk, owner block, For stmt)
        ok = True

        def scan(stmts, top, only_ifs):
            nonlocal ok
            for st in stmts:
                k = top if top is not None else blk.index(st)
                if isinstance(st, (ast.FunctionDef, ast.AsyncFunctionDef,
                                   ast.ClassDef)):
                    continue
                if isinstance(st, ast.Expr) and isinstance(
                        st.value, ast.Call) and isinstance(
                            st.value.func, ast.Attribute) and \
                        st.value.func.attr == 'append' and isinstance(
                            st.value.func.value, ast.Name) and \
                        st.value.func.value.id == L:
                    c = st.value
                    if not only_ifs or len(c.args) != 1 or c.keywords or \
                            isinstance(c.args[0], ast.Starred) or \
                            L in _names(c.args[0]):
                        ok = False
                        return
                    accounted.add(id(c.func.value))
                    appends.append((k, stmts, st))
                    continue
                if isinstance(st, ast.For) and isinstance(
                        st.iter, ast.Name) and st.iter.id == L:
                    b = st.body
                    if st.orelse or not isinstance(st.target, ast.Name) or \
                            len(b) != 1 or not isinstance(b[0], ast.Assign) \
                            or len(b[0].targets) != 1 or not isinstance(
                                b[0].targets[0], ast.Name):
                        ok = False
                        return
                    f, x, v = st.target.id, b[0].targets[0].id, b[0].value
                    if not (isinstance(v, ast.Call) and isinstance(
                            v.func, ast.Name) and v.func.id == f and
                            len(v.args) == 1 and not v.keywords and
                            isinstance(v.args[0], ast.Name) and
                            v.args[0].id == x and len({f, x, L}) == 3):
                        ok = False
                        return
                    accounted.add(id(st.iter))
                    loops.append((k, stmts, st))
                    continue
                if isinstance(st, ast.If):
                    scan(st.body, k, only_ifs)
                    scan(st.orelse, k, only_ifs)
                else:
                    for fld in ('body', 'orelse', 'finalbody'):
                        b = getattr(st, fld, None)
                        if isinstance(b, list) and b and isinstance(
                                b[0], ast.stmt):
                            scan(b, k, False)
                    if isinstance(st, ast.Try):
                        for hd in st.handlers:
                            scan(hd.body, k, False)
                if not ok:
                    return
        scan(blk[i0 + 1:], None, True)
        if not ok or not appends or not loops or len(appends) > 6 or \
                any(id(x) not in accounted for x in occ):
            continue
        if max(k for k, _b, _s in appends) >= min(k for k, _b, _s in loops):
            continue
        fnames = {lp.target.id for _k, _b, lp in loops}
        in_loops = set()
        for _k, _b, lp in loops:
            in_loops |= {id(x) for x in ast.walk(lp)}
        if any(isinstance(x, ast.Name) and x.id in fnames and
               id(x) not in in_loops for x in ast.walk(fn)) or \
                fnames & set(params):
            continue
        if not all(_shape(_n(s_.value.args[0]), allnames) in ref_shapes
                   for _k, _b, s_ in appends):
            continue
        used = {x.id for x in ast.walk(fn) if isinstance(x, ast.Name)} | \
            set(params) | {x.name for x in ast.walk(fn) if isinstance(
                x, (ast.FunctionDef, ast.AsyncFunctionDef, ast.ClassDef))}
        gs = ['%s__%d' % (L, k + 1) for k in range(len(appends))]
        if set(gs) & used:
            continue
        appends.sort(key=lambda t: (t[2].lineno, t[2].col_offset))
        # the steps: L.append(E_k) -> g_k = E_k
        for g, (_k, b_, s_) in zip(gs, appends):
            new = ast.Assign(targets=[ast.Name(id=g, ctx=ast.Store())],
                             value=s_.value.args[0])
            b_[b_.index(s_)] = ast.copy_location(new, s_)
        # the applications: for f in L: x = f(x) -> x = g_n(...g_1(x))
        for _k, b_, lp in loops:
            x = lp.body[0].targets[0].id
            e = ast.Name(id=x, ctx=ast.Load())
            for g in gs:
                e = ast.Call(func=ast.Name(id=g, ctx=ast.Load()), args=[e],
                             keywords=[])
            new = ast.Assign(targets=[ast.Name(id=x, ctx=ast.Store())],
                             value=e)
            b_[b_.index(lp)] = ast.copy_location(new, lp)
        # the defaults: identity
        ident = ast.FunctionDef(
            name=gs[0], args=ast.arguments(
                posonlyargs=[], args=[ast.arg(arg='v')], kwonlyargs=[],
                kw_defaults=[], defaults=[]),
            body=[ast.Return(value=ast.Name(id='v', ctx=ast.Load()))],
            decorator_list=[], returns=None, type_params=[])
        head = [ast.copy_location(ident, st0)]
        for g in gs[1:]:
            head.append(ast.copy_location(ast.Assign(
                targets=[ast.Name(id=g, ctx=ast.Store())],
                value=ast.Name(id=gs[0], ctx=ast.Load())), st0))
        blk[i0:i0 + 1] = head
        ast.fix_missing_locations(fn)
        log.append('%s: list of %d conversion step(s) %s applied in a loop '
                   '-> one identity-default local per step (%s)'
                   % (q, len(gs), L, ', '.join(gs)))
        return


def _sink_selected_callee(fn, rf, log, q):
    """A callee chosen by a condition and called once in the next statement

        if c: f = A          (or  f = A if c else B)
        else: f = B
        S[f(args)]

    ->  if c: S[A(args)] else: S[B(args)].  Side conditions: f is a local
    the reference does not have, bound only by these assignments and read
    only as the callee of that one call; A and B are pure look-ups
    (attribute chains: a bound-method look-up has no effect); S is a simple
    statement in which nothing is called outside the arguments of f(...), so
    no effect lies between the old and the new place of the look-up; the
    reference calls both A and B directly (towards the recorded form only)."""
    ref_locs = set(rf.get('locals', [])) | set(rf.get('params', []))
    ref_calls = rf.get('calls', {})

    def called_in_ref(e):
        t = _n(e) + '('
        return any(k.startswith(t) for k in ref_calls)

    for _ in range(10):
        done = False
        for blk in _blocks(fn):
            for i in range(len(blk) - 1):
                st, use = blk[i], blk[i + 1]
                sel = None
                if isinstance(st, ast.If) and len(st.body) == 1 and \
                        len(st.orelse) == 1 and all(
                            isinstance(b, ast.Assign) and len(b.targets) == 1
                            and isinstance(b.targets[0], ast.Name)
                            for b in (st.body[0], st.orelse[0])) and \
                        st.body[0].targets[0].id == \
                        st.orelse[0].targets[0].id:
                    sel = (st.body[0].targets[0].id, st.test,
                           st.body[0].value, st.orelse[0].value)
                elif isinstance(st, ast.Assign) and len(st.targets) == 1 \
                        and isinstance(st.targets[0], ast.Name) and \
                        isinstance(st.value, ast.IfExp):
                    sel = (st.targets[0].id, st.value.test, st.value.body,
                           st.value.orelse)
                if sel is None:
                    continue
                name, test, a_, b_ = sel
                params, _locs = local_order(fn)
                if name in ref_locs or name in params:
                    continue
                if not all(isinstance(e, ast.Attribute) and _pure_lookup(e)
                           and called_in_ref(e) for e in (a_, b_)):
                    continue
                if name in _names(test):
                    continue
                if not isinstance(use, (ast.Assign, ast.AugAssign, ast.Expr,
                                        ast.Return)):
                    continue
                occ = [x for x in _own_nodes(fn) if isinstance(x, ast.Name)
                       and x.id == name]
                n_st = 2 if isinstance(st, ast.If) else 1
                stores = [x for x in occ if not isinstance(x.ctx, ast.Load)]
                loads = [x for x in occ if isinstance(x.ctx, ast.Load)]
                if len(stores) != n_st or len(loads) != 1:
                    continue
                if any(isinstance(x, (ast.FunctionDef, ast.AsyncFunctionDef,
                                      ast.Lambda, ast.ClassDef)) and
                       name in _names(x) for x in ast.walk(fn) if x is not fn):
                    continue        # captured by a nested scope
                calls = [x for x in ast.walk(use) if isinstance(x, ast.Call)]
                mine = [c for c in calls if c.func is loads[0]]
                if len(mine) != 1:
                    continue
                inner = {id(x) for arg in list(mine[0].args) + [
                    k.value for k in mine[0].keywords] for x in ast.walk(arg)}
                if any(c is not mine[0] and id(c) not in inner
                       for c in calls):
                    continue
                if any(isinstance(x, (ast.Lambda, ast.ListComp, ast.SetComp,
                                      ast.DictComp, ast.GeneratorExp,
                                      ast.NamedExpr, ast.Await, ast.Yield,
                                      ast.YieldFrom))
                       for x in ast.walk(use)):
                    continue
                s_a = _Subst({name: a_}).visit(copy.deepcopy(use))
                s_b = _Subst({name: b_}).visit(copy.deepcopy(use))
                new = ast.copy_location(ast.If(
                    test=test, body=[s_a], orelse=[s_b]), st)
                blk[i:i + 2] = [new]
                log.append('%s: callee selected into %s pushed into the '
                           'branches of `%s`' % (q, name, _n(test)))
                done = True
                break
            if done:
                break
        if not done:
            break
    ast.fix_missing_locations(fn)


def _inline_indexed_comprehensions(fn, rf, log, q):
    """Look-up table of a pure expression the reference does not know:
        X = [E(v) for v in range(N)]
    used only as `X[k]` (k provably not negative) or as the iterable of a
    comprehension generator `for t in X`:
        X[k]                 ->  E(k)
        [F(t) for t in X]    ->  [F(E(v)) for v in range(N)]
    Side conditions: X is bound once and never stored through; E consists of
    look-ups, constants, arithmetic and comparisons only (no call: evaluating
    it again, or not at all, is unobservable); every use follows the
    definition in its block; no operand of E / N is re-bound and no look-up
    of E / N is stored to between the definition and the last use."""
    ref_locs = set(rf.get('locals', []))
    comps = (ast.ListComp, ast.SetComp, ast.GeneratorExp, ast.DictComp)
    for _ in range(6):
        params, locs = local_order(fn)
        done = False
        for x in locs:
            if x in ref_locs:
                continue
            h = _single_assign(fn, x)
            if h is None:
                continue
            blk, i, st = h
            v = st.value
            if not (isinstance(v, ast.ListComp) and len(v.generators) == 1
                    and not v.generators[0].ifs and isinstance(
                        v.generators[0].target, ast.Name) and isinstance(
                            v.generators[0].iter, ast.Call) and
                    _n(v.generators[0].iter.func) == 'range' and
                    len(v.generators[0].iter.args) == 1 and
                    not v.generators[0].iter.keywords and
                    not v.generators[0].is_async):
                continue
            var = v.generators[0].target.id
            rng = v.generators[0].iter
            if not all(isinstance(y, _PURE_ELT) for y in ast.walk(v.elt)) or \
                    not all(isinstance(y, _PURE_ELT) for y in
                            ast.walk(rng.args[0])):
                continue
            uses = [n for n in _own_nodes(fn) if isinstance(n, ast.Name)
                    and n.id == x and isinstance(n.ctx, ast.Load)]
            subs = [n for n in _own_nodes(fn) if isinstance(n, ast.Subscript)
                    and isinstance(n.value, ast.Name) and n.value.id == x
                    and isinstance(n.ctx, ast.Load)]
            gens = [(c_, g_) for c_ in _own_nodes(fn) if isinstance(c_, comps)
                    for g_ in c_.generators
                    if isinstance(g_.iter, ast.Name) and g_.iter.id == x]
            if not uses or len(uses) != len(subs) + len(gens):
                continue
            if not all(_nonneg_index(fn, s_, rng.args[0]) for s_ in subs):
                continue
            # generator uses: single plain target, bound nowhere else in the
            # comprehension; the table's own variable is free to be used
            okg = True
            for c_, g_ in gens:
                if not isinstance(g_.target, ast.Name) or g_.is_async or \
                        sum(1 for y in ast.walk(c_) if isinstance(
                            y, ast.Name) and y.id == g_.target.id and
                            isinstance(y.ctx, ast.Store)) != 1 or \
                        (var != g_.target.id and var in _names(c_)) or \
                        any(y is not g_.iter and isinstance(y, ast.Name)
                            and y.id == x for y in ast.walk(c_)) or \
                        g_.target.id in _names(v.elt) | _names(rng):
                    okg = False
            if not okg:
                continue
            # uses follow the definition, in its block
            later = blk[i + 1:]
            inside = set()
            for s_ in later:
                inside |= {id(y) for y in ast.walk(s_)}
            if any(id(y) not in inside for y in uses):
                continue
            # operands stay what they were when the table was built
            operands = (_names(v.elt) | _names(rng.args[0])) - {var}
            if var in _names(rng.args[0]):
                continue
            roots = {_n(y) for e_ in (v.elt, rng.args[0])
                     for y in ast.walk(e_)
                     if isinstance(y, (ast.Attribute, ast.Subscript))}
            last = max(getattr(y, 'lineno', 0) for y in uses)
            clean = True
            for s_ in later:
                if s_.lineno > last:
                    break
                for y in ast.walk(s_):
                    if isinstance(y, ast.Name) and isinstance(
                            y.ctx, (ast.Store, ast.Del)) and \
                            y.id in operands:
                        clean = False
                    if isinstance(y, (ast.Attribute, ast.Subscript)) and \
                            isinstance(getattr(y, 'ctx', None),
                                       (ast.Store, ast.Del)) and \
                            _n(y) in roots:
                        clean = False
            if not clean:
                continue

            for c_, g_ in gens:
                t_ = g_.target.id
                e = _Subst({var: ast.Name(id=var, ctx=ast.Load())}).visit(
                    copy.deepcopy(v.elt))
                sb = _Subst({t_: e})
                k_ = c_.generators.index(g_)
                for f_ in ('elt', 'key', 'value'):
                    if hasattr(c_, f_):
                        setattr(c_, f_, sb.visit(getattr(c_, f_)))
                g_.ifs = [sb.visit(y) for y in g_.ifs]
                for g2 in c_.generators[k_ + 1:]:
                    g2.iter = sb.visit(g2.iter)
                    g2.ifs = [sb.visit(y) for y in g2.ifs]
                g_.target = ast.copy_location(
                    ast.Name(id=var, ctx=ast.Store()), g_.target)
                g_.iter = ast.copy_location(copy.deepcopy(rng), g_.iter)

            class RC(ast.NodeTransformer):
                def visit_Subscript(self, node):
                    self.generic_visit(node)
                    if isinstance(node.value, ast.Name) and \
                            node.value.id == x and isinstance(node.ctx,
                                                              ast.Load):
                        e = _Subst({var: node.slice}).visit(
                            copy.deepcopy(v.elt))
                        return ast.copy_location(e, node)
                    return node
            for j in range(len(blk)):
                if j != i:
                    blk[j] = RC().visit(blk[j])
            del blk[i]
            log.append('%s: indexed comprehension %s inlined%s' % (
                q, x, ' (%d generator use(s) re-expressed over %s)' % (
                    len(gens), _n(rng)) if gens else ''))
            done = True
            break
        if not done:
            break
    ast.fix_missing_locations(fn)


def _merge_accumulators(fn, rf, log, q):
    """X = []; X.append(..) ...; Y += X   ->   Y.append(..) ...   for a list
    X the reference does not know (collect-then-extend)."""
    ref_locs = set(rf.get('locals', []))
    for _ in range(6):
        params, locs = local_order(fn)
        done = False
        for x in locs:
            if x in ref_locs:
                continue
            h = _single_assign(fn, x)
            if h is None or not (isinstance(h[2].value, ast.List) and
                                 not h[2].value.elts):
                continue
            blk, i, st = h
            fin = [(k, s_) for k, s_ in enumerate(blk) if k > i and
                   isinstance(s_, ast.AugAssign) and isinstance(
                       s_.op, ast.Add) and isinstance(s_.value, ast.Name)
                   and s_.value.id == x]
            if len(fin) != 1:
                continue
            k, fs = fin[0]
            y = fs.target
            ytext = _n(y)
            ok = True
            for n in _own_nodes(fn):
                if isinstance(n, ast.Name) and n.id == x and n is not \
                        st.targets[0] and n is not fs.value:
                    # must be the receiver of append/extend or a += target
                    inside = any(n is z for s_ in blk[i + 1:k]
                                 for z in ast.walk(s_))
                    if not inside:
                        ok = False
            for s_ in blk[i + 1:k]:
                for z in ast.walk(s_):
                    if isinstance(z, ast.Name) and z.id == x:
                        pz = None
                        for w in ast.walk(s_):
                            for ch in ast.iter_child_nodes(w):
                                if ch is z:
                                    pz = w
                        if not ((isinstance(pz, ast.Attribute) and pz.attr in
                                 ('append', 'extend')) or isinstance(
                                     pz, ast.AugAssign)):
                            ok = False
                    if isinstance(z, ast.expr) and _n(z) == ytext:
                        ok = False          # Y touched in between
            if not ok:
                continue

            class RY(ast.NodeTransformer):
                def visit_Name(self, node):
                    if node.id == x:
                        new = copy.deepcopy(y)
                        new.ctx = type(node.ctx)()
                        return ast.copy_location(new, node)
                    return node
            for j in range(i + 1, k):
                blk[j] = RY().visit(blk[j])
            del blk[k]
            del blk[i]
            log.append('%s: accumulator %s merged into %s' % (q, x, ytext))
            done = True
            break
        if not done:
            break
    ast.fix_missing_locations(fn)


def _root_name(e):
    while isinstance(e, (ast.Subscript, ast.Attribute, ast.Starred)):
        e = e.value
    return e.id if isinstance(e, ast.Name) else None


def _merge_forwarded_locals(fn, rf, log, q):
    """A local X the reference does not know whose only read is in
    `Y = <expr of X>` (Y a recorded local not live in between) is Y under
    another name: rename X -> Y and drop a resulting `Y = Y`."""
    ref_locs = set(rf.get('locals', []))
    for _ in range(12):
        params, locs = local_order(fn)
        done = False
        for x in locs:
            if x in ref_locs:
                continue
            loads = [n for n in _own_nodes(fn) if isinstance(n, ast.Name)
                     and n.id == x and isinstance(n.ctx, ast.Load)]
            stores = [n for n in _own_nodes(fn) if isinstance(n, ast.Name)
                      and n.id == x and isinstance(n.ctx, ast.Store)]
            # reads inside X's own re-bindings (X = X[...]) do not count
            own = set()
            for n in _own_nodes(fn):
                if isinstance(n, ast.Assign) and any(
                        isinstance(t, ast.Name) and t.id == x
                        for t in n.targets):
                    own |= {id(z) for z in ast.walk(n.value)}
            loads = [n for n in loads if id(n) not in own]
            # nor do reads inside statements that only store THROUGH X
            # (`X[i] = e`, `X[i] += X[j]`): they update the object X names;
            # they must sit between X's binding and the forwarding
            # statement, in the latter's block (checked below)
            through = []
            for n in _own_nodes(fn):
                if isinstance(n, (ast.Assign, ast.AugAssign)):
                    tg = n.targets if isinstance(n, ast.Assign) \
                        else [n.target]
                    if all(isinstance(t, (ast.Subscript, ast.Attribute))
                           and _root_name(t) == x for t in tg):
                        through.append(n)
            thr_ids = {id(z) for n in through for z in ast.walk(n)}
            loads = [n for n in loads if id(n) not in thr_ids]
            if len(loads) != 1 or not stores:
                continue
            host = None
            for blk in _blocks(fn):
                for k, st in enumerate(blk):
                    if isinstance(st, ast.Assign) and len(st.targets) == 1 \
                            and isinstance(st.targets[0], ast.Name) and any(
                                n is loads[0] for n in ast.walk(st.value)):
                        host = (blk, k, st)
            if host is None:
                continue
            blk, k, st = host
            y = st.targets[0].id
            if y == x or y not in ref_locs:
                continue
            # Y's old value must not be read by the forwarding statement
            # itself (it would be X's after the renaming)
            if any(isinstance(n, ast.Name) and n.id == y
                   for n in ast.walk(st.value)):
                continue
            if through:
                # straight line: X bound once in this block, then updated
                # in place, then forwarded; Y not mentioned on the way and
                # no jump out of the stretch
                bind = [j for j, s_ in enumerate(blk[:k]) if isinstance(
                    s_, ast.Assign) and any(isinstance(t, ast.Name) and
                                            t.id == x for t in s_.targets)]
                if len(stores) != 1 or len(bind) != 1:
                    continue
                seg = blk[bind[0]:k]
                if not all(any(n is s_ for s_ in seg[1:]) for n in through):
                    continue
                if any((isinstance(n, ast.Name) and n.id == y) or isinstance(
                        n, (ast.Return, ast.Break, ast.Continue, ast.Raise,
                            ast.Try))
                       for s_ in seg for n in ast.walk(s_)):
                    continue
            # only `Y = X` or `Y = X[...]` (a selection of X) forwards X
            root = st.value
            while isinstance(root, (ast.Subscript, ast.Attribute)):
                root = root.value
            if root is not loads[0]:
                continue
            # every binding of X happens in the same loop iteration as the
            # forwarding statement (same enclosing loops)
            def loops_of(node):
                out = []
                for l in _own_nodes(fn):
                    if isinstance(l, (ast.For, ast.While)) and any(
                            z is node for b_ in (l.body, l.orelse)
                            for s_ in b_ for z in ast.walk(s_)):
                        out.append(id(l))
                return sorted(out)
            if any(loops_of(n) != loops_of(loads[0]) for n in stores):
                continue
            first = min(n.lineno for n in stores)
            # Y must not be used between the first binding of X and the
            # forwarding statement
            if any(isinstance(n, ast.Name) and n.id == y and
                   first <= n.lineno < st.lineno for n in _own_nodes(fn)):
                continue
            _rename(fn, {x: y})
            if isinstance(st.value, ast.Name) and st.value.id == y:
                del blk[k]
            log.append('%s: forwarded local %s merged into %s' % (q, x, y))
            done = True
            break
        if not done:
            break
    ast.fix_missing_locations(fn)


def _chain_texts(t):
    """Text of an attribute/subscript chain and of every container on the
    way to it (not the bare root name)."""
    out = set()
    while isinstance(t, (ast.Attribute, ast.Subscript)):
        out.add(_n(t))
        t = t.value
    return out


def _mentions(stmts, texts):
    return any(isinstance(n, ast.expr) and _n(n) in texts
               for s_ in stmts for n in ast.walk(s_))


_PURE_FUNCS = ('len', 'float', 'int', 'abs', 'min', 'max', 'range')


def _pure_value(e):
    """No call except numpy/math functions and a few builtins; no lambda,
    comprehension, await/yield, walrus."""
    for n in ast.walk(e):
        if isinstance(n, (ast.Lambda, ast.ListComp, ast.SetComp, ast.DictComp,
                          ast.GeneratorExp, ast.Await, ast.Yield,
                          ast.YieldFrom, ast.NamedExpr)):
            return False
        if isinstance(n, ast.Call):
            f = n.func
            if isinstance(f, ast.Name):
                if f.id not in _PURE_FUNCS:
                    return False
                continue
            r_ = f
            while isinstance(r_, ast.Attribute):
                r_ = r_.value
            if not (isinstance(r_, ast.Name) and r_.id in ('np', 'math')):
                return False
    return True


def _sink_build_block(blk, i, k, x):
    """blk[i] is `X = D`, blk[k] is `T = X`.  Reorder blk[i:k] so that the
    statements that mention X (its definition and the stores into it) come
    last, directly before blk[k].  Allowed only if every statement involved
    is a plain assignment of a call-free (numpy/math/builtin calls aside)
    value, the X-statements write nothing but X / X[...], and they read
    nothing that the statements they are moved past write (a stored chain,
    one of its containers, or an extension of it).  Temporaries bound in
    between that only the X-statements read move with them.  Returns True if
    done."""
    build, other = [blk[i]], []
    for s_ in blk[i + 1:k]:
        if any(isinstance(n, ast.Name) and n.id == x for n in ast.walk(s_)):
            build.append(s_)
        else:
            other.append(s_)
    # a temporary `t = e` among the others that the X-statements read moves
    # with them (and what it reads in turn); nothing that stays may mention t
    temps, grew = set(), True
    while grew:
        grew = False
        for s_ in list(other):
            if isinstance(s_, ast.Assign) and len(s_.targets) == 1 and \
                    isinstance(s_.targets[0], ast.Name) and any(
                        isinstance(n, ast.Name) and n.id == s_.targets[0].id
                        for b_ in build for n in ast.walk(b_)):
                other.remove(s_)
                build.append(s_)
                temps.add(s_.targets[0].id)
                grew = True
    build.sort(key=lambda s_: next(j for j, o_ in enumerate(blk)
                                   if o_ is s_))
    if not other or any(isinstance(n, ast.Name) and n.id in temps
                        for s_ in other for n in ast.walk(s_)):
        return False
    for s_ in build + other:
        if not (isinstance(s_, ast.Assign) and len(s_.targets) == 1 or
                isinstance(s_, ast.AugAssign)):
            return False
        if not _pure_value(s_):
            return False
    for s_ in build[1:]:
        t_ = s_.targets[0] if isinstance(s_, ast.Assign) else s_.target
        if isinstance(t_, ast.Name) and t_.id in temps and isinstance(
                s_, ast.Assign):
            continue
        if not isinstance(t_, ast.Subscript):
            return False
        while isinstance(t_, ast.Subscript):
            t_ = t_.value
        if not (isinstance(t_, ast.Name) and t_.id == x):
            return False
    written = set()
    for s_ in other:
        t_ = s_.targets[0] if isinstance(s_, ast.Assign) else s_.target
        if isinstance(t_, ast.Name):
            written.add(t_.id)
        elif isinstance(t_, (ast.Attribute, ast.Subscript)):
            written |= _chain_texts(t_)
        else:
            return False
    if _mentions(build, written):
        return False
    blk[i:k] = other + build
    return True


def _basic_index_chain(fn, tgt):
    """Every subscript on the way to the target is a constant, a slice or a
    for-loop variable (an integer / key, never a mask or an index array)."""
    loopvars = set()
    for n in _own_nodes(fn):
        if isinstance(n, (ast.For, ast.comprehension)):
            loopvars |= {y.id for y in ast.walk(n.target)
                         if isinstance(y, ast.Name)}
    t = tgt
    while isinstance(t, (ast.Subscript, ast.Attribute)):
        if isinstance(t, ast.Subscript):
            elts = t.slice.elts if isinstance(t.slice, ast.Tuple) \
                else [t.slice]
            for e in elts:
                if isinstance(e, (ast.Constant, ast.Slice)):
                    continue
                if isinstance(e, ast.Name) and e.id in loopvars:
                    continue
                if isinstance(e, ast.UnaryOp) and isinstance(
                        e.operand, ast.Constant):
                    continue
                return False
        t = t.value
    return True


_ARRAY_MAKERS = ('np.zeros', 'np.ones', 'np.empty', 'np.full', 'np.array',
                 'np.zeros_like', 'np.ones_like', 'np.empty_like',
                 'np.full_like')


def _array_built_once(fn, name):
    """Like _single_assign, for a local that is bound once to a fresh NumPy
    array (`X = np.zeros(..)`) and otherwise only updated by genuine augmented
    assignments `X op= e`.  An ndarray implements every augmented operator in
    place and returns itself, so `X op= e` re-binds X to the object it already
    names: X denotes one object throughout.  An `X = X op e` that the
    universal step spelled `X op= e` (marked `_was_assign`) makes a *new*
    array and is not accepted."""
    hits = []
    for blk in _blocks(fn):
        for i, st in enumerate(blk):
            if isinstance(st, ast.Assign) and len(st.targets) == 1 and \
                    isinstance(st.targets[0], ast.Name) and \
                    st.targets[0].id == name:
                hits.append((blk, i, st))
    if len(hits) != 1:
        return None
    val = hits[0][2].value
    if not (isinstance(val, ast.Call) and _n(val.func) in _ARRAY_MAKERS):
        return None
    augs = {id(a.target) for a in _own_nodes(fn)
            if isinstance(a, ast.AugAssign) and isinstance(a.target, ast.Name)
            and a.target.id == name and not getattr(a, '_was_assign', False)
            and not isinstance(a.op, ast.MatMult)}
    for x in _own_nodes(fn):
        if isinstance(x, ast.Name) and x.id == name and isinstance(
                x.ctx, (ast.Store, ast.Del)) and \
                x is not hits[0][2].targets[0] and id(x) not in augs:
            return None
    return hits[0]


def _dissolve_built_locals(fn, rf, log, q):
    """`X = D; X[i] = ...; T = X`  ->  `T = D; T[i] = ...` for a local X the
    reference does not know (a container built in a local and stored).  X may
    also be updated in place by `X op= e` when D makes a NumPy array
    (`_array_built_once`): `T op= e` then updates the same object and stores
    it back where it already is."""
    ref_locs = set(rf.get('locals', []))
    for _ in range(10):
        params, locs = local_order(fn)
        done = False
        for x in locs:
            if x in ref_locs:
                continue
            h = _single_assign(fn, x) or _array_built_once(fn, x)
            if h is None:
                continue
            blk, i, st = h
            finals = [(k, s_) for k, s_ in enumerate(blk) if k > i and
                      isinstance(s_, ast.Assign) and len(s_.targets) == 1
                      and isinstance(s_.value, ast.Name)
                      and s_.value.id == x
                      and isinstance(s_.targets[0], (ast.Subscript,
                                                     ast.Attribute))]
            if len(finals) != 1:
                continue
            k, fin = finals[0]
            tgt = fin.targets[0]
            # if X is modified between its definition and the store, reading
            # it back through T must give the same object: an index that may
            # be a mask / index array makes `T[...]` a copy, and the
            # modification would be lost in the rewritten program
            if any(isinstance(n, ast.Name) and n.id == x and isinstance(
                    n.ctx, (ast.Store, ast.Load)) and s_ is not fin
                    for s_ in blk[i + 1:k] for n in ast.walk(s_)) and \
                    not _basic_index_chain(fn, tgt):
                continue
            # X is used only in this block, from its definition on; T is not
            # re-bound after the store (X and T stay the same object)
            uses = [n for n in _own_nodes(fn) if isinstance(n, ast.Name)
                    and n.id == x]
            inside = {id(n) for s_ in blk[i:] for n in ast.walk(s_)}
            if any(id(n) not in inside for n in uses):
                continue
            ttext = _n(tgt)
            rebinds = [t_ for s_ in blk[i:] for a_ in ast.walk(s_)
                       if isinstance(a_, ast.Assign) for t_ in a_.targets
                       if t_ is not tgt and _n(t_) == ttext]
            if rebinds:
                continue
            # ... nor a container T lives in, while X is still read
            if any(isinstance(n, ast.Name) and n.id == x
                   for s_ in blk[k + 1:] for n in ast.walk(s_)) and any(
                    _n(t_) in _chain_texts(tgt) for s_ in blk[k + 1:]
                    for a_ in ast.walk(s_) if isinstance(a_, ast.Assign)
                    for t_ in a_.targets):
                continue
            # operands of T are not re-bound in between (`X = D; X[0] = ..;
            # T0 = {}; T0['k'] = X`: the record is created behind the build
            # block -- sink the block first, as below)
            ops = _names(tgt)

            def _rebound():
                return any(isinstance(n, ast.Name)
                           and isinstance(n.ctx, ast.Store) and n.id in ops
                           for s_ in blk[i:k] for n in ast.walk(s_))
            if _rebound():
                if not _sink_build_block(blk, i, k, x):
                    continue
                i = next(j for j, s_ in enumerate(blk) if s_ is st)
                if _rebound():
                    continue
                log.append('%s: statements building %s moved down to its '
                           'store into %s' % (q, x, _n(tgt)))
            # T itself and the containers it lives in (self.clad for
            # self.clad['r']) must not be touched while X is being built:
            # `X = D; X[0] = ..; self.clad = {}; self.clad['r'] = X` cannot
            # become `self.clad['r'] = D; ..; self.clad = {}`.  If they are,
            # first sink the statements that build X down to the final store
            # (past statements they provably commute with), then look again.
            # (the definition `X = D` itself may read them: D is evaluated
            # at the same point and before the store in `T = D` as well; only
            # the statements the store is moved across matter)
            tset = _chain_texts(tgt)
            if _mentions(blk[i + 1:k], tset):
                if not _sink_build_block(blk, i, k, x):
                    continue
                i = next(j for j, s_ in enumerate(blk) if s_ is st)
                if _mentions(blk[i + 1:k], tset):
                    continue
                log.append('%s: statements building %s moved down to its '
                           'store into %s' % (q, x, ttext))

            class RT(ast.NodeTransformer):
                def visit_Name(self, node):
                    if node.id == x:
                        new = copy.deepcopy(tgt)
                        new.ctx = type(node.ctx)()
                        return ast.copy_location(new, node)
                    return node
            for j in range(i, len(blk)):
                if j != k:
                    blk[j] = RT().visit(blk[j])
            del blk[k]
            log.append('%s: container built in local %s dissolved into %s'
                       % (q, x, _n(tgt)))
            done = True
            break
        if not done:
            break
    ast.fix_missing_locations(fn)


def _hoist_fresh_dicts(fn, rf, log, q):
    """X1 = D1; ..; Xn = Dn; (stores into the Xi); T = {}; T['k1'] = X1; ..;
       T['kn'] = Xn   ->   T = {}; X1 = D1; ..   (the creation of the empty
    dict moved up in front of the first container that ends in it), so that
    _dissolve_built_locals can build the containers through T as recorded.
    Creating an empty dict reads nothing and has no effect, and T is a local
    that nothing mentions before its creation, so the move is unobservable.
    Applied only when the whole run of keyed stores behind `T = {}` stores
    single-assignment locals unknown to the reference, defined in this block
    in the order in which they are stored (the keys enter T in the same order
    once the locals are dissolved), into recorded targets."""
    ref_locs = set(rf.get('locals', []))
    ref_stores = set(rf.get('stores', []))
    tried = _in_try(fn)
    for blk in _blocks(fn):
        for j, mk in enumerate(blk):
            if not (isinstance(mk, ast.Assign) and len(mk.targets) == 1 and
                    isinstance(mk.targets[0], ast.Name) and
                    isinstance(mk.value, ast.Dict) and not mk.value.keys):
                continue
            T = mk.targets[0].id
            if _single_assign(fn, T) is None or id(mk) in tried:
                continue
            inside = {id(n) for s_ in blk[j:] for n in ast.walk(s_)}
            if any(isinstance(n, ast.Name) and n.id == T and
                   id(n) not in inside for n in ast.walk(fn)):
                continue
            defs, k = [], j + 1
            while k < len(blk):
                f_ = blk[k]
                if not (isinstance(f_, ast.Assign) and len(f_.targets) == 1
                        and isinstance(f_.targets[0], ast.Subscript)
                        and isinstance(f_.targets[0].value, ast.Name)
                        and f_.targets[0].value.id == T
                        and isinstance(f_.targets[0].slice, ast.Constant)):
                    break
                v = f_.value
                h = _single_assign(fn, v.id) if isinstance(v, ast.Name) \
                    else None
                if h is None or v.id in ref_locs or v.id == T or \
                        h[0] is not blk or h[1] >= j or id(h[2]) in tried or \
                        _n(f_.targets[0]) not in ref_stores or \
                        (defs and h[1] <= defs[-1]):
                    defs = []
                    break
                defs.append(h[1])
                k += 1
            if not defs:
                continue
            del blk[j]
            blk.insert(defs[0], mk)
            log.append('%s: creation of dict %s moved up in front of the '
                       'containers stored into it' % (q, T))
    ast.fix_missing_locations(fn)


def _accumulators_to_targets(fn, rf, log, q):
    """v = <number>; ... v op= e ...; T = {}; T['k'] = v; (reads of v)
         ->  T = {}; T['k'] = <number>; ... T['k'] op= e ...; (reads of T['k'])
    for number accumulators v the reference does not know whose value is
    stored once, directly behind the creation of the local dict T, into a
    constant key that the recorded function stores to.  Numbers are immutable,
    so v and T['k'] denote the same value from the store on; before it T is
    not referenced at all (`T = {}` is moved up to the first accumulator's
    initialisation, nothing in between mentions T), and the keys enter T in
    the same order (the accumulators are initialised in the order in which
    they are stored)."""
    ref_locs = set(rf.get('locals', []))
    ref_stores = set(rf.get('stores', []))
    tried = _in_try(fn)
    for blk in _blocks(fn):
        for j, mk in enumerate(blk):
            if not (isinstance(mk, ast.Assign) and len(mk.targets) == 1 and
                    isinstance(mk.targets[0], ast.Name) and
                    isinstance(mk.value, ast.Dict) and not mk.value.keys):
                continue
            T = mk.targets[0].id
            if _single_assign(fn, T) is None or id(mk) in tried:
                continue
            inside = {id(n) for s_ in blk[j:] for n in ast.walk(s_)}
            if any(isinstance(n, ast.Name) and n.id == T and
                   id(n) not in inside for n in ast.walk(fn)):
                continue
            group, k = [], j + 1
            while k < len(blk):
                f_ = blk[k]
                if not (isinstance(f_, ast.Assign) and len(f_.targets) == 1
                        and isinstance(f_.targets[0], ast.Subscript)
                        and isinstance(f_.targets[0].value, ast.Name)
                        and f_.targets[0].value.id == T
                        and isinstance(f_.targets[0].slice, ast.Constant)
                        and isinstance(f_.value, ast.Name)):
                    break
                group.append((k, f_))
                k += 1
            picked, last_init = [], -1
            for k, f_ in group:
                v = f_.value.id
                ttext = _n(f_.targets[0])
                if v in ref_locs or v == T or ttext not in ref_stores:
                    break
                inits = [(i, s_) for i, s_ in enumerate(blk[:j])
                         if isinstance(s_, ast.Assign) and len(s_.targets) == 1
                         and isinstance(s_.targets[0], ast.Name)
                         and s_.targets[0].id == v]
                if len(inits) != 1:
                    break
                i, init = inits[0]
                c = init.value
                if not (isinstance(c, ast.Constant) and type(c.value) in (
                        int, float)) or i <= last_init or id(init) in tried:
                    break
                # every other binding of v is an augmented assignment between
                # the initialisation and the store; every use of v lies in
                # this block from the initialisation on
                names = [n for n in ast.walk(fn) if isinstance(n, ast.Name)
                         and n.id == v]
                from_init = {id(n) for s_ in blk[i:] for n in ast.walk(s_)}
                before_store = {id(n) for s_ in blk[i:j] for n in ast.walk(s_)}
                if any(id(n) not in from_init for n in names):
                    break
                augs = {id(a.target) for a in ast.walk(fn)
                        if isinstance(a, ast.AugAssign)}
                if any(not isinstance(n.ctx, ast.Load) and
                       n is not init.targets[0] and not (
                           id(n) in augs and id(n) in before_store)
                       for n in names):
                    break
                # the slot is stored nowhere else
                if any(isinstance(n, ast.Subscript) and not isinstance(
                        n.ctx, ast.Load) and n is not f_.targets[0] and
                        _n(n) == ttext for n in _own_nodes(fn)):
                    break
                picked.append((k, f_, v, i))
                last_init = i
            if not picked:      # (picked is a prefix of the stores behind T)
                continue
            first = picked[0][3]
            subst = {v: f_.targets[0] for _k, f_, v, _i in picked}

            class RT(ast.NodeTransformer):
                def visit_Name(self, node):
                    if node.id in subst:
                        new = copy.deepcopy(subst[node.id])
                        new.ctx = type(node.ctx)()
                        return ast.copy_location(new, node)
                    return node
            drop = {id(f_) for _k, f_, _v, _i in picked}
            body = [s_ for s_ in blk if id(s_) not in drop and s_ is not mk]
            pos = body.index(blk[first])
            body.insert(pos, mk)
            body = [s_ if s_ is mk else RT().visit(s_) for s_ in body]
            blk[:] = body
            for _k, f_, v, _i in picked:
                log.append('%s: accumulator %s kept in %s' % (
                    q, v, _n(f_.targets[0])))
            ast.fix_missing_locations(fn)
            return _accumulators_to_targets(fn, rf, log, q)


def _index_to_unpack(fn, rf, log, q):
    """`T = f(..)` with T read only as `T[0]`, `T[1]`, ..  ->  the recorded
    `L0, L1 = f(..)`.  f must be a package function whose every return is a
    tuple display of exactly that many elements (so the unpacking cannot
    fail and T[k] is the k-th element), T is never stored through, passed
    on or captured, and the L's are unused names."""
    from . import core as _core
    groups = {}
    for loc, defs in rf.get('defs', {}).items():
        for d in defs:
            m = _re.match(r'unpack(\d+):(.*)$', d, _re.S)
            if m:
                groups.setdefault(m.group(2), {})[int(m.group(1))] = loc
    if not groups:
        return
    ref_locs = set(rf.get('locals', [])) | set(rf.get('params', []))
    arities = None
    for blk in _blocks(fn):
        for i, st in enumerate(blk):
            if not (isinstance(st, ast.Assign) and len(st.targets) == 1 and
                    isinstance(st.targets[0], ast.Name) and
                    isinstance(st.value, ast.Call)):
                continue
            T = st.targets[0].id
            if T in ref_locs:
                continue
            f = st.value.func
            fname = f.id if isinstance(f, ast.Name) else (
                f.attr if isinstance(f, ast.Attribute) else None)
            cand = [(txt, g) for txt, g in groups.items()
                    if txt == _n(st.value)]
            if not cand:
                cand = [(txt, g) for txt, g in groups.items()
                        if txt.startswith(_n(f) + '(')]
            if len(cand) != 1 or fname is None:
                continue
            g = cand[0][1]
            n = len(g)
            if sorted(g) != list(range(n)) or len(set(g.values())) != n:
                continue
            if arities is None:
                arities = _return_arities(_core.REPO)
            if arities.get(fname) != n:
                continue
            occ = [x for x in ast.walk(fn) if isinstance(x, ast.Name)
                   and x.id == T]
            own = {id(x) for x in _own_nodes(fn)}
            if any(id(x) not in own for x in occ):
                continue
            if sum(isinstance(x.ctx, ast.Store) for x in occ) != 1:
                continue
            subs = {id(x.value): x for x in _own_nodes(fn) if isinstance(
                x, ast.Subscript) and isinstance(x.ctx, ast.Load)}
            ok = True
            for x in occ:
                if isinstance(x.ctx, ast.Store):
                    continue
                sub = subs.get(id(x))
                k = sub.slice if sub is not None else None
                if isinstance(k, ast.UnaryOp) and isinstance(
                        k.op, ast.USub) and isinstance(k.operand,
                                                       ast.Constant):
                    k = ast.Constant(value=-k.operand.value) if isinstance(
                        k.operand.value, int) else None
                if not (isinstance(k, ast.Constant) and type(k.value) is int
                        and -n <= k.value < n):
                    ok = False
                    break
            names = {x.id for x in ast.walk(fn) if isinstance(x, ast.Name)}
            names |= {a.arg for a in ast.walk(fn) if isinstance(a, ast.arg)}
            if not ok or set(g.values()) & names:
                continue

            class R(ast.NodeTransformer):
                def visit_Subscript(self, node):
                    self.generic_visit(node)
                    if isinstance(node.value, ast.Name) and \
                            node.value.id == T:
                        k = node.slice
                        v = k.value if isinstance(k, ast.Constant) \
                            else -k.operand.value
                        return ast.copy_location(
                            ast.Name(id=g[v % n], ctx=ast.Load()), node)
                    return node
            R().visit(fn)
            st.targets = [ast.copy_location(ast.Tuple(
                elts=[ast.Name(id=g[j], ctx=ast.Store()) for j in range(n)],
                ctx=ast.Store()), st.targets[0])]
            log.append('%s: indexed result %s of %s restored to the '
                       'unpacking %s' % (q, T, _n(f), ', '.join(
                           g[j] for j in range(n))))
    ast.fix_missing_locations(fn)


def _rehoist(fn, rf, log, q):
    """Re-introduce recorded single-definition lookup locals that the
    current function spells out (the inverse of hoisting)."""
    params, locs = local_order(fn)
    used = _names(fn) | set(params)
    for nm in rf.get('locals', []):
        if nm in used:
            continue
        ds = rf.get('defs', {}).get(nm, [])
        if len(ds) != 1 or ds[0].startswith(('for', 'unpack', 'aug')):
            continue
        try:
            dnode = ast.parse(ds[0], mode='eval').body
        except SyntaxError:
            continue
        if isinstance(dnode, (ast.Name, ast.Constant)):
            continue
        dtext = ds[0]
        pure = _pure_lookup(dnode)
        if not pure:
            # an arbitrary expression is re-introduced only where it occurs
            # exactly once (a temporary that was inlined)
            occ = sum(1 for x in _own_nodes(fn) if isinstance(x, ast.expr)
                      and _n(x) == dtext)
            if occ != 1 or len(dtext) < 8:
                continue
        # the shallowest block whose statements contain every occurrence
        best = None
        for blk in _blocks(fn):
            idx = [k for k, st in enumerate(blk) if any(
                isinstance(x, ast.expr) and isinstance(
                    getattr(x, 'ctx', ast.Load()), ast.Load) and
                _n(x) == dtext for x in ast.walk(st))]
            if idx:
                total = sum(1 for x in _own_nodes(fn) if isinstance(
                    x, ast.expr) and _n(x) == dtext)
                here = sum(1 for st in blk for x in ast.walk(st)
                           if isinstance(x, ast.expr) and _n(x) == dtext)
                if here == total and (best is None or len(blk) >= 1):
                    best = (blk, idx[0])
        if best is None:
            continue
        blk, k = best
        # operands must be bound before position k (loop variables etc.)
        class RH(ast.NodeTransformer):
            def generic_visit(self, node):
                if isinstance(node, ast.expr) and _n(node) == dtext and \
                        not isinstance(getattr(node, 'ctx', None),
                                       (ast.Store, ast.Del)):
                    return ast.copy_location(ast.Name(id=nm, ctx=ast.Load()),
                                             node)
                return super().generic_visit(node)
        for j in range(k, len(blk)):
            blk[j] = RH().visit(blk[j])
        asg = ast.Assign(targets=[ast.Name(id=nm, ctx=ast.Store())],
                         value=dnode)
        ast.copy_location(asg, blk[k])
        blk.insert(k, asg)
        used.add(nm)
        log.append('%s: local %s re-introduced for `%s`' % (q, nm, dtext))
    ast.fix_missing_locations(fn)


def _tuple_locals_to_lists(fn, rf, log, q):
    """`K = (a, b, c)` -> `K = [a, b, c]` where the reference defines a local
    by exactly that list display and K is only ever *read as a sequence*
    (iterated, enumerated, len(K), K[i] in load context, `x in K`): no
    operation that distinguishes a tuple from a list of the same items is
    applied to it, and it never leaves the function."""
    rtexts = {d for ds in rf.get('defs', {}).values() for d in ds
              if d.startswith('[')}
    if not rtexts:
        return
    params, locs = local_order(fn)
    par = {}
    for x in ast.walk(fn):
        for c_ in ast.iter_child_nodes(x):
            par[id(c_)] = x
    for nm in locs:
        h = _single_assign(fn, nm)
        if h is None or not isinstance(h[2].value, ast.Tuple):
            continue
        as_list = ast.List(elts=h[2].value.elts, ctx=ast.Load())
        if _n(as_list) not in rtexts:
            continue
        ok = True
        for x in ast.walk(fn):      # uses in nested functions count, too
            if not (isinstance(x, ast.Name) and x.id == nm and
                    isinstance(x.ctx, ast.Load)):
                continue
            p_ = par.get(id(x))
            if isinstance(p_, (ast.For, ast.comprehension)) and p_.iter is x:
                continue
            if isinstance(p_, ast.Subscript) and p_.value is x and \
                    isinstance(p_.ctx, ast.Load) and \
                    not isinstance(p_.slice, ast.Slice):
                continue
            if isinstance(p_, ast.Call) and isinstance(p_.func, ast.Name) \
                    and p_.func.id in ('len', 'enumerate') and p_.args and \
                    p_.args[0] is x and (p_.func.id == 'len' or isinstance(
                        par.get(id(p_)), (ast.For, ast.comprehension))):
                continue
            if isinstance(p_, ast.Compare) and len(p_.ops) == 1 and \
                    isinstance(p_.ops[0], (ast.In, ast.NotIn)) and \
                    p_.comparators[0] is x:
                continue
            ok = False
            break
        if ok:
            h[2].value = ast.copy_location(as_list, h[2].value)
            log.append('%s: tuple display of sequence-only local %s spelled '
                       'as the recorded list' % (q, nm))
    ast.fix_missing_locations(fn)


def _split_fused_updates(fn, rf, log, q):
    """`x = A op e`  ->  `x = A; x op= e` (the second marked as a former
    plain assignment, exactly what the universal step makes of
    `x = x op e`) when the reference records for the local x both the
    definition `A` and the update `op= e`, and the current function lacks
    that update: a two-step computation whose intermediate the refactoring
    fused into one expression (usually after naming the intermediate, which
    the temporary step then inlined).  Sound because A is evaluated before e
    in both forms and e does not read x."""
    rdefs = rf.get('defs', {})
    for _ in range(8):
        cdefs = _defs_of(fn)
        done = False
        for blk in _blocks(fn):
            for k, st in enumerate(blk):
                if not (isinstance(st, ast.Assign) and len(st.targets) == 1
                        and isinstance(st.targets[0], ast.Name)
                        and isinstance(st.value, ast.BinOp)
                        and isinstance(st.value.op, (ast.Add, ast.Sub,
                                                     ast.Mult, ast.Div))):
                    continue
                x = st.targets[0].id
                a_, e_ = st.value.left, st.value.right
                rd = rdefs.get(x, [])
                if _n(a_) not in rd or 'aug:' + _n(e_) not in rd:
                    continue
                if 'aug:' + _n(e_) in cdefs.get(x, []) or \
                        _n(st.value) in rd:
                    continue
                if x in _names(e_):
                    continue
                first = ast.copy_location(ast.Assign(
                    targets=[ast.Name(id=x, ctx=ast.Store())], value=a_), st)
                second = ast.copy_location(ast.AugAssign(
                    target=ast.Name(id=x, ctx=ast.Store()), op=st.value.op,
                    value=e_), st)
                second._was_assign = True
                blk[k:k + 1] = [first, second]
                log.append('%s: fused update of %s split into `%s = ...` and '
                           '`%s %s= %s`' % (q, x, x, x, {
                               ast.Add: '+', ast.Sub: '-', ast.Mult: '*',
                               ast.Div: '/'}[type(st.value.op)], _n(e_)))
                done = True
                break
            if done:
                break
        if not done:
            break
    ast.fix_missing_locations(fn)


def _selects_to_default_and_override(fn, rf, log, q):
    """`x = D if c else E`  ->  `x = D; if not c: x = E`  (and the mirrored
    `x = E if c else D`  ->  `x = D; if c: x = E`) where D is a plain name:
    a default that a condition overrides, written as one conditional
    expression.  Exact: loading a bound name has no effect, c and E are
    evaluated as before (c first, E only when selected) and neither reads x.
    Side conditions: D is a parameter or is bound by a statement of the
    function's top-level block in front of this one (so the unconditional
    load cannot fail); only towards the recorded form: the reference has the
    else-less, jump-free `if` with exactly that test and records E as the
    definition of a local."""
    ref_tests = {t[0] for t in rf.get('tests', []) if not t[1] and not t[2]}
    ref_def_texts = {d for ds in rf.get('defs', {}).values() for d in ds}
    if not ref_tests:
        return
    params = {a.arg for a in ast.walk(fn.args) if isinstance(a, ast.arg)}
    for blk in _blocks(fn):
        k = 0
        while k < len(blk):
            st = blk[k]
            k += 1
            if not (isinstance(st, ast.Assign) and len(st.targets) == 1 and
                    isinstance(st.targets[0], ast.Name) and
                    isinstance(st.value, ast.IfExp)):
                continue
            x = st.targets[0].id
            c, a_, b_ = st.value.test, st.value.body, st.value.orelse
            for dflt, other, cond in ((a_, b_, _negate_exact(c)),
                                      (b_, a_, c)):
                if not isinstance(dflt, ast.Name) or dflt.id == x or \
                        x in _names(c) | _names(other):
                    continue
                if _n(cond) not in ref_tests or \
                        _n(other) not in ref_def_texts:
                    continue
                bound = dflt.id in params
                for s_ in fn.body:
                    if s_.lineno >= st.lineno:
                        break
                    if isinstance(s_, (ast.FunctionDef, ast.ClassDef)) and \
                            s_.name == dflt.id:
                        bound = True
                    if isinstance(s_, ast.Assign) and any(
                            isinstance(t, ast.Name) and t.id == dflt.id
                            for t in s_.targets):
                        bound = True
                if not bound:
                    continue
                first = ast.copy_location(ast.Assign(
                    targets=[ast.Name(id=x, ctx=ast.Store())], value=dflt),
                    st)
                setter = ast.copy_location(ast.Assign(
                    targets=[ast.Name(id=x, ctx=ast.Store())], value=other),
                    st)
                cnd = ast.copy_location(ast.If(
                    test=cond, body=[setter], orelse=[]), st)
                blk[k - 1:k] = [first, cnd]
                k += 1
                log.append('%s: conditional expression `%s = %s` restored to '
                           'default `%s = %s` + `if %s: %s = ...`'
                           % (q, x, _n(st.value)[:60], x, dflt.id, _n(cond),
                              x))
                break
    ast.fix_missing_locations(fn)


def _sink_shared_store(fn, rf, log, q):
    """A store shared by the branches of an if / elif / else chain

        if a: v = E1            if a: T[E1]
        elif b: v = E2; ...  -> elif b: v = E2; ...; T[v]
        else: continue          else: continue
        T[v]

    is copied to the end of every branch that can complete (tail
    duplication: control reaches T exactly from the end of those branches,
    the chain has an explicit else, so the copies run exactly when T ran).
    In a branch whose last statement is `v = E` with E a pure look-up read
    once by T, the copy reads E directly and the binding is dropped (v is
    read by T only).  Applied only towards the recorded form: T is one
    subscript / attribute store, v is a local bound in every completing
    branch and nowhere else, every call the copies make is a call of the
    recorded function (text in its call multiset) and at least one of them
    is missing from the current function."""
    ref_calls = rf.get('calls', {})
    if not ref_calls:
        return

    def leaves(node, out):
        out.append(node.body)
        if len(node.orelse) == 1 and isinstance(node.orelse[0], ast.If):
            leaves(node.orelse[0], out)
        else:
            out.append(node.orelse)

    for blk in _blocks(fn):
        k = 0
        while k + 1 < len(blk):
            st, tail = blk[k], blk[k + 1]
            k += 1
            if not (isinstance(st, ast.If) and isinstance(tail, ast.Assign)
                    and len(tail.targets) == 1 and isinstance(
                        tail.targets[0], (ast.Subscript, ast.Attribute))):
                continue
            brs = []
            leaves(st, brs)
            if any(not b for b in brs):
                continue                    # no explicit else
            live = [b for b in brs if not _jump(b)]
            if len(live) < 2:
                continue
            cands = []
            for v in sorted(_names(tail, ast.Load)):
                binds = [s_ for b in live for s_ in b if isinstance(
                    s_, ast.Assign) and len(s_.targets) == 1 and isinstance(
                        s_.targets[0], ast.Name) and s_.targets[0].id == v]
                occ = [x for x in ast.walk(fn) if isinstance(x, ast.Name)
                       and x.id == v]
                stores = [x for x in occ if not isinstance(x.ctx, ast.Load)]
                loads = [x for x in occ if isinstance(x.ctx, ast.Load)]
                in_tail = {id(x) for x in ast.walk(tail)}
                if len(binds) == len(live) == len(stores) and all(
                        sum(1 for s_ in b if s_ in binds) == 1
                        for b in live) and loads and all(
                            id(x) in in_tail for x in loads):
                    cands.append((v, len(loads)))
            if len(cands) != 1:
                continue
            v, nloads = cands[0]
            new_brs = []
            for b in live:
                cp = copy.deepcopy(tail)
                last = b[-1]
                if nloads == 1 and isinstance(last, ast.Assign) and len(
                        last.targets) == 1 and isinstance(
                            last.targets[0], ast.Name) and \
                        last.targets[0].id == v and _pure_lookup(last.value):
                    cp = _Subst({v: last.value}).visit(cp)
                    new_brs.append((b, b[:-1] + [cp], cp))
                else:
                    new_brs.append((b, b + [cp], cp))
            # towards the recorded form only: every call of the copies is a
            # recorded call, and at least one of them is a recorded call the
            # current function does not make yet (a chain + shared store that
            # the recorded function has itself is left alone)
            new_calls = {_n(c_) for _b, _nb, cp in new_brs
                         for c_ in ast.walk(cp) if isinstance(c_, ast.Call)}
            cur_calls = {_n(c_) for c_ in _own_nodes(fn)
                         if isinstance(c_, ast.Call)}
            if not new_calls or not all(c_ in ref_calls for c_ in new_calls) \
                    or not (new_calls - cur_calls):
                continue
            for b, nb, _cp in new_brs:
                b[:] = nb
            del blk[k]
            log.append('%s: store `%s` shared by the branches of `if %s` '
                       'copied into the %d branches that reach it'
                       % (q, _n(tail.targets[0])[:70], _n(st.test)[:60],
                          len(live)))
    ast.fix_missing_locations(fn)


def _always_bool(e):
    """Expressions whose value is a genuine bool whatever the operands:
    identity and membership tests, `not <anything>`."""
    if isinstance(e, ast.UnaryOp) and isinstance(e.op, ast.Not):
        return True
    return isinstance(e, ast.Compare) and len(e.ops) == 1 and isinstance(
        e.ops[0], (ast.Is, ast.IsNot, ast.In, ast.NotIn))


def _flags_to_conditionals(fn, rf, log, q):
    """`T = <test>`  ->  `T = False; if <test>: T = True` for an attribute /
    subscript flag T when the reference has an else-less, jump-free
    `if <test>:` and stores into T, and the current function has no `if` on
    that test: a default-plus-conditional flag written as a boolean
    expression.  <test> must always yield a bool (identity / membership test
    or a negation) and must not read T."""
    ref_tests = {t[0] for t in rf.get('tests', []) if not t[1] and not t[2]}
    ref_stores = set(rf.get('stores', []))
    if not ref_tests or not ref_stores:
        return
    for _ in range(8):
        cur_tests = {_n(st.test) for st, _b, _i in _ifs_in_order(fn)}
        done = False
        for blk in _blocks(fn):
            for k, st in enumerate(blk):
                if not (isinstance(st, ast.Assign) and len(st.targets) == 1
                        and isinstance(st.targets[0], (ast.Attribute,
                                                       ast.Subscript))):
                    continue
                tgt, test = st.targets[0], st.value
                ttext = _n(test)
                if _n(tgt) not in ref_stores or ttext not in ref_tests or \
                        ttext in cur_tests or not _always_bool(test):
                    continue
                gtext = _n(tgt)
                if any(isinstance(x, ast.expr) and _n(x) == gtext
                       for x in ast.walk(test)):
                    continue
                # T is stored nowhere else in the function (the recorded
                # form has exactly the default and the conditional store)
                others = [n for n in _own_nodes(fn) if isinstance(
                    n, (ast.Attribute, ast.Subscript)) and isinstance(
                        n.ctx, (ast.Store, ast.Del)) and n is not tgt
                    and _n(n) == gtext]
                if others:
                    continue
                default = ast.copy_location(ast.Assign(
                    targets=[copy.deepcopy(tgt)],
                    value=ast.Constant(value=False)), st)
                setter = ast.copy_location(ast.Assign(
                    targets=[tgt], value=ast.Constant(value=True)), st)
                cond = ast.copy_location(ast.If(
                    test=test, body=[setter], orelse=[]), st)
                blk[k:k + 1] = [default, cond]
                log.append('%s: boolean flag `%s = %s` restored to default '
                           'False + `if %s: ... = True`'
                           % (q, gtext, ttext, ttext))
                done = True
                break
            if done:
                break
        if not done:
            break
    ast.fix_missing_locations(fn)


def _temps_and_names(fn, rf, log, q):
    params, locs = local_order(fn)
    ref_locs = rf.get('locals', [])
    ref_defs = rf.get('defs', {})
    mapping = {}
    used = _names(fn) | set(params)
    rp = rf.get('params', [])
    if len(rp) == len(params):
        for c_, r_ in zip(params, rp):
            if c_ != r_ and r_ not in used and c_ != 'self':
                mapping[c_] = r_
    if mapping:
        _rename(fn, mapping)
        for c_, r_ in mapping.items():
            log.append('%s: parameter %s -> %s' % (q, c_, r_))
    for _round in range(24):
        params, locs = local_order(fn)
        cur_only = [n for n in locs if n not in ref_locs]
        ref_only = [n for n in ref_locs if n not in locs]
        if not cur_only:
            return
        # a recorded lookup local whose definition is spelled out in the
        # current text is re-introduced by _rehoist: not a pairing candidate
        texts = {_n(x) for x in _own_nodes(fn) if isinstance(
            x, (ast.Attribute, ast.Subscript)) and isinstance(
                getattr(x, 'ctx', None), ast.Load)}
        ref_only_d = [n for n in ref_only if not (
            len(ref_defs.get(n, [])) == 1 and ref_defs[n][0] in texts)]
        used = _names(fn) | set(params)
        cdefs = _defs_of(fn)
        # A. pair by definition text: the whole definition list, or -- for a
        #    recorded local that was split into several single-assignment
        #    locals -- one of its definitions (disjoint live ranges)
        done = False
        for c_ in cur_only:
            cd = [_mask(d, c_) for d in cdefs.get(c_, [])]
            if not cd:
                continue
            for r_ in ref_locs:
                rd = [_mask(d, r_) for d in ref_defs.get(r_, [])]
                if not rd:
                    continue
                whole = (r_ in ref_only) and (cd == rd or set(cd) == set(rd))
                part = len(cd) == 1 and len(rd) > 1 and cd[0] in rd
                if not (whole or part):
                    continue
                if r_ in used:
                    # the recorded name is in use: only a split sibling with
                    # a disjoint live range may join it
                    if not part:
                        continue
                    a0, a1 = _live_range(fn, c_)
                    b0, b1 = _live_range(fn, r_)
                    if not (a1 < b0 or b1 < a0):
                        continue
                _rename(fn, {c_: r_})
                log.append('%s: local %s -> %s (same definition)'
                           % (q, c_, r_))
                done = True
                break
            if done:
                break
        if done:
            continue
        # A2. pair by definition shape (other locals renamed as well)
        allnames = set(locs) | set(ref_locs)
        cshape = {c_: [_shape(d, allnames) for d in cdefs.get(c_, [])]
                  for c_ in cur_only}
        rshape = {r_: [_shape(d, allnames) for d in ref_defs.get(r_, [])]
                  for r_ in ref_only}
        for c_ in cur_only:
            if not cshape[c_]:
                continue
            cands = [r_ for r_ in ref_only if rshape[r_] == cshape[c_]]
            back = [c2 for c2 in cur_only if cshape[c2] == cshape[c_]]
            if len(cands) >= 1 and len(back) == len(cands):
                # same multiplicity: pair in order of first binding
                r_ = cands[back.index(c_)]
                if r_ not in used:
                    _rename(fn, {c_: r_})
                    log.append('%s: local %s -> %s (same definition shape)'
                               % (q, c_, r_))
                    done = True
                    break
        if done:
            continue
        # B. inline hoisted lookups the reference does not know
        for c_ in cur_only:
            h = _single_assign(fn, c_)
            if h is not None and _pure_lookup(h[2].value) and \
                    not any(rshape[r_] == cshape[c_] for r_ in ref_only) \
                    and _inline_temp(fn, c_):
                log.append('%s: hoisted lookup %s inlined' % (q, c_))
                done = True
                break
        if done:
            ast.fix_missing_locations(fn)
            continue
        # C. more locals than recorded: inline other temporaries
        if len(cur_only) > len(ref_only_d):
            for c_ in reversed(cur_only):
                if _inline_temp(fn, c_):
                    log.append('%s: temporary %s inlined' % (q, c_))
                    done = True
                    break
            if not done:
                for c_ in reversed(cur_only):
                    if _inline_temp(fn, c_, allow_calls=True,
                                    ref_calls=rf.get('calls', {})):
                        log.append('%s: temporary %s (getter call) inlined'
                                   % (q, c_))
                        done = True
                        break
            if done:
                ast.fix_missing_locations(fn)
                continue
        # D. pair the rest by order of first binding
        if cur_only and len(cur_only) == len(ref_only_d):
            mapping = {}
            for c_, r_ in zip(cur_only, ref_only_d):
                if r_ not in used:
                    mapping[c_] = r_
            if mapping:
                _rename(fn, mapping)
                for c_, r_ in mapping.items():
                    log.append('%s: local %s -> %s (order of first binding)'
                               % (q, c_, r_))
                continue
        return


# ---------------------------------------------------------------------------
# parameter copies, search loops, cached last elements

def _rebind_params(fn, rf, log, q):
    """`X = E(p)` at function level, after which the parameter p is dead, is
    the recorded re-binding `p = E(p)`: rename X -> p."""
    ref_locs = set(rf.get('locals', []))
    rdefs = rf.get('defs', {})
    for _ in range(6):
        params, locs = local_order(fn)
        done = False
        for x in locs:
            if x in ref_locs:
                continue
            h = _single_assign(fn, x)
            if h is None or h[0] is not fn.body:
                continue
            blk, i, st = h
            for p_ in params:
                if p_ in ('self', 'cls') or _n(st.value) not in rdefs.get(
                        p_, []):
                    continue
                # p is read only inside E (also not by a nested function)
                occ = [n for n in ast.walk(fn) if isinstance(n, ast.Name)
                       and n.id == p_]
                inside = {id(n) for n in ast.walk(st.value)}
                if not occ or any(id(n) not in inside for n in occ):
                    continue
                # X lives only after its definition
                xs = [n for n in ast.walk(fn) if isinstance(n, ast.Name)
                      and n.id == x and n is not st.targets[0]]
                later = {id(n) for s_ in blk[i + 1:] for n in ast.walk(s_)}
                if any(id(n) not in later for n in xs):
                    continue
                _rename(fn, {x: p_})
                log.append('%s: copy %s of parameter %s restored to a '
                           're-binding of the parameter' % (q, x, p_))
                done = True
                break
            if done:
                break
        if not done:
            return


_PURE_TEST_NODES = (ast.BoolOp, ast.boolop, ast.UnaryOp, ast.unaryop,
                    ast.Compare, ast.cmpop, ast.BinOp, ast.operator, ast.Name,
                    ast.expr_context, ast.Attribute, ast.Subscript,
                    ast.Constant)


def _search_loops_to_flags(fn, rf, log, q):
    """for v in S:                       L = [P(w) for w in S]
           if P(v):                      if not any(L):
               return E(v)        ->         return D
       return D                          else:
                                             K = np.where(L)[0][0]
                                             return E(S[K])
    where the reference has the locals L (a list comprehension over S) and
    K = np.where(L)[0][0], tests `not any(L)` and indexes S by K.  P is a
    pure test (names, look-ups, comparisons, arithmetic), so evaluating it
    for every element instead of up to the first hit changes nothing;
    np.where(L)[0][0] is the position of the first hit and S[K] the element
    the loop variable held there (S is a positional sequence: the recorded
    program indexes it)."""
    defs = rf.get('defs', {})
    params, locs = local_order(fn)
    for L, ds in defs.items():
        if len(ds) != 1 or not ds[0].startswith('['):
            continue
        try:
            comp = ast.parse(ds[0], mode='eval').body
        except SyntaxError:
            continue
        if not (isinstance(comp, ast.ListComp) and len(comp.generators) == 1
                and not comp.generators[0].ifs and isinstance(
                    comp.generators[0].target, ast.Name)):
            continue
        s_text = _n(comp.generators[0].iter)
        ks = [k for k, kd in defs.items()
              if kd == ['np.where(%s)[0][0]' % L]]
        if len(ks) != 1:
            continue
        K = ks[0]
        if not any(t == 'not any(%s)' % L and he
                   for t, he, _j in rf.get('tests', [])):
            continue
        idx_text = '%s[%s]' % (s_text, K)
        if not any(idx_text in c for c in rf.get('calls', {})) and not any(
                idx_text in d for dd in defs.values() for d in dd):
            continue
        used = {n.id for n in ast.walk(fn) if isinstance(n, ast.Name)} | \
            set(params)
        if L in used or K in used or 'np' not in used:
            continue
        for blk in _blocks(fn):
            for i, st in enumerate(blk):
                if not (isinstance(st, ast.For) and not st.orelse and
                        isinstance(st.target, ast.Name) and
                        _n(st.iter) == s_text and _pure_lookup(st.iter)):
                    continue
                if len(st.body) != 1 or not isinstance(st.body[0], ast.If) \
                        or st.body[0].orelse:
                    continue
                iff = st.body[0]
                if len(iff.body) != 1 or not isinstance(
                        iff.body[0], ast.Return) or iff.body[0].value is None:
                    continue
                if i + 1 >= len(blk) or not isinstance(blk[i + 1],
                                                       ast.Return):
                    continue
                v = st.target.id
                P, E, dret = iff.test, iff.body[0].value, blk[i + 1]
                if not all(isinstance(n, _PURE_TEST_NODES)
                           for n in ast.walk(P)):
                    continue
                if any(isinstance(n, (ast.Lambda, ast.ListComp, ast.SetComp,
                                      ast.DictComp, ast.GeneratorExp,
                                      ast.NamedExpr)) for n in ast.walk(E)):
                    continue
                inloop = {id(n) for n in ast.walk(st)}
                if any(isinstance(n, ast.Name) and n.id == v and
                       id(n) not in inloop for n in ast.walk(fn)):
                    continue
                w = comp.generators[0].target.id
                if w in used and w != v:
                    w = v
                elt = _Subst({v: ast.Name(id=w, ctx=ast.Load())}).visit(
                    copy.deepcopy(P))
                lc = ast.ListComp(elt=elt, generators=[ast.comprehension(
                    target=ast.Name(id=w, ctx=ast.Store()),
                    iter=copy.deepcopy(st.iter), ifs=[], is_async=0)])
                a1 = ast.Assign(targets=[ast.Name(id=L, ctx=ast.Store())],
                                value=lc)
                sk = ast.Subscript(value=copy.deepcopy(st.iter),
                                   slice=ast.Name(id=K, ctx=ast.Load()),
                                   ctx=ast.Load())
                e2 = _Subst({v: sk}).visit(copy.deepcopy(E))
                a2 = ast.Assign(
                    targets=[ast.Name(id=K, ctx=ast.Store())],
                    value=ast.parse('np.where(%s)[0][0]' % L,
                                    mode='eval').body)
                test = ast.parse('not any(%s)' % L, mode='eval').body
                if2 = ast.If(test=test, body=[dret],
                             orelse=[a2, ast.Return(value=e2)])
                for new in (a1, if2):
                    for x in ast.walk(new):
                        if not hasattr(x, 'lineno') or x is new:
                            ast.copy_location(x, st)
                ast.copy_location(a2, iff.body[0])
                ast.copy_location(if2.orelse[1], iff.body[0])
                blk[i:i + 2] = [a1, if2]
                ast.fix_missing_locations(fn)
                log.append('%s: search loop over %s with early return '
                           'restored to flags %s / first index %s'
                           % (q, s_text, L, K))
                return


def _cached_last_elements(fn, rf, log, q):
    """A local X the reference does not know that always equals L[-1] of a
    local list L -- bound by `X = L[-1]` once and otherwise only by
    `X = E; L.append(X)` (adjacent), while L is changed by nothing but these
    appends -- is replaced by L[-1]; the pairs become `L.append(E)`."""
    ref_locs = set(rf.get('locals', []))
    params, locs = local_order(fn)
    for x in locs:
        if x in ref_locs:
            continue
        stores = [(blk, i, st) for blk in _blocks(fn)
                  for i, st in enumerate(blk)
                  if isinstance(st, ast.Assign) and len(st.targets) == 1 and
                  isinstance(st.targets[0], ast.Name) and
                  st.targets[0].id == x]
        binds = [n for n in ast.walk(fn) if isinstance(n, ast.Name) and
                 n.id == x and isinstance(n.ctx, (ast.Store, ast.Del))]
        if len(stores) != len(binds) or len(stores) < 2:
            continue
        inits = [s_ for s_ in stores if isinstance(s_[2].value, ast.Subscript)
                 and isinstance(s_[2].value.value, ast.Name) and
                 _n(s_[2].value.slice) == '-1']
        if len(inits) != 1:
            continue
        iblk, ii, ist = inits[0]
        L = ist.value.value.id
        if L in params or L == x:
            continue
        hl = _single_assign(fn, L)
        if hl is None or hl[0] is not iblk or hl[1] >= ii or not isinstance(
                hl[2].value, (ast.List, ast.ListComp)):
            continue
        pairs = []
        ok = True
        for blk, i, st in stores:
            if st is ist:
                continue
            nxt = blk[i + 1] if i + 1 < len(blk) else None
            if not (isinstance(nxt, ast.Expr) and isinstance(
                    nxt.value, ast.Call) and _n(nxt.value.func) == L +
                    '.append' and len(nxt.value.args) == 1 and
                    not nxt.value.keywords and isinstance(
                        nxt.value.args[0], ast.Name) and
                    nxt.value.args[0].id == x):
                ok = False
                break
            pairs.append((blk, st, nxt))
        if not ok:
            continue
        # X lives only after `X = L[-1]`
        later = {id(n) for s_ in iblk[ii + 1:] for n in ast.walk(s_)}
        if any(isinstance(n, ast.Name) and n.id == x and n is not
               ist.targets[0] and id(n) not in later for n in ast.walk(fn)):
            continue
        # L is only read, or appended to by the pairs
        par = {}
        for p_ in ast.walk(fn):
            for c_ in ast.iter_child_nodes(p_):
                par[id(c_)] = p_
        pair_calls = {id(p_[2].value) for p_ in pairs}
        for n in ast.walk(fn):
            if not (isinstance(n, ast.Name) and n.id == L) or \
                    n is hl[2].targets[0]:
                continue
            pn = par.get(id(n))
            if isinstance(pn, ast.Subscript) and pn.value is n and \
                    isinstance(pn.ctx, ast.Load):
                continue
            if isinstance(pn, ast.Attribute) and pn.attr == 'append' and \
                    id(par.get(id(pn))) in pair_calls:
                continue
            if isinstance(pn, ast.Call) and any(a_ is n for a_ in pn.args) \
                    and (_n(pn.func) in ('len', 'list', 'tuple') or
                         _n(pn.func).startswith('np.')):
                continue
            if isinstance(pn, ast.Return) or (isinstance(pn, ast.Tuple) and
                                              isinstance(par.get(id(pn)),
                                                         ast.Return)):
                continue
            ok = False
            break
        if not ok:
            continue
        for blk, st, nxt in pairs:
            nxt.value.args[0] = st.value
            del blk[[k for k, s_ in enumerate(blk) if s_ is st][0]]
        last = ast.parse('%s[-1]' % L, mode='eval').body
        ii = [k for k, s_ in enumerate(iblk) if s_ is ist][0]
        for j in range(ii + 1, len(iblk)):
            iblk[j] = _Subst({x: last}).visit(iblk[j])
        del iblk[ii]
        ast.fix_missing_locations(fn)
        log.append('%s: cached last element %s of %s replaced by %s[-1]'
                   % (q, x, L, L))
        return _cached_last_elements(fn, rf, log, q)


# ---------------------------------------------------------------------------

def _renumber(fn):
    """Make statement line numbers strictly increasing in source order after
    statements were moved (rules order statements by line)."""
    prev = [fn.lineno]

    def shift(node, delta):
        for x in ast.walk(node):
            if hasattr(x, 'lineno') and x.lineno is not None:
                x.lineno += delta
            if getattr(x, 'end_lineno', None) is not None:
                x.end_lineno += delta

    def rec(stmts):
        for st in stmts:
            if st.lineno <= prev[0]:
                shift(st, prev[0] + 1 - st.lineno)
            prev[0] = st.lineno
            if isinstance(st, (ast.FunctionDef, ast.AsyncFunctionDef,
                               ast.ClassDef)):
                prev[0] = max(prev[0], getattr(st, 'end_lineno', st.lineno)
                              or st.lineno)
                continue
            for f in ('body', 'orelse', 'finalbody'):
                b = getattr(st, f, None)
                if isinstance(b, list) and b and isinstance(b[0], ast.stmt):
                    rec(b)
            if isinstance(st, ast.Try):
                for h in st.handlers:
                    rec(h.body)
            end = max([getattr(x, 'lineno', 0) or 0 for x in ast.walk(st)])
            st.end_lineno = max(getattr(st, 'end_lineno', 0) or 0, end)
    rec(fn.body)
    fn.end_lineno = max(getattr(fn, 'end_lineno', 0) or 0, prev[0])


def _inline_all_lookups(tree):
    """Universal: every single-assignment local that merely names a lookup
    (attribute / subscript chain) is replaced by the lookup."""
    n = 0
    for q, fn, cls, body in qualfuncs(tree):
        for _ in range(30):
            params, locs = local_order(fn)
            done = False
            for c_ in locs:
                h = _single_assign(fn, c_)
                if h is not None and not isinstance(h[2].value, ast.Name) \
                        and _pure_lookup(h[2].value) and _inline_temp(fn, c_):
                    n += 1
                    done = True
                    break
            if not done:
                break
    return n


def canonicalise(tree, modname, text=None):
    """Rewrite the module tree in place; returns the list of rewrites."""
    log = []
    if os.environ.get('DSA_NO_CANON'):
        return log
    ref = load_reference()
    _Universal().visit(tree)
    if not _binds_name(tree, 'dict'):
        _DictCalls().visit(tree)
    from . import core as _core
    _KwToPos(_signatures(_core.REPO)).visit(tree)
    _SplitTupleAssign().visit(tree)
    if os.environ.get('DSA_INLINE_ALL'):
        _inline_all_lookups(tree)
    table = ref.get(modname)
    if not table:
        ast.fix_missing_locations(tree)
        return log
    if text is not None:
        import hashlib
        if hashlib.sha1(text.encode()).hexdigest() == table.get('__sha1__'):
            ast.fix_missing_locations(tree)
            return log          # the file the reference was taken from
    _import_foreign_helpers(tree, modname, ref, log)
    _inline_helpers(tree, modname, ref, log)
    helpers_inlined = bool(log)
    for q, fn, cls, body in qualfuncs(tree):
        rf = table.get(q)
        if not rf:
            continue
        if not helpers_inlined and describe(fn) == rf:
            continue            # unchanged forms: nothing to rewrite
        n0 = len(log)
        _fold_constant_tests(fn, log, q)
        _sink_selected_callee(fn, rf, log, q)
        _inline_hoisted(fn, rf, log, q)
        # a callee that was reached through a hoisted alias is named now
        _KwToPos(_signatures(_core.REPO)).visit(fn)
        _locals_forwarded_to_attrs(fn, rf, log, q)
        _inline_literal_iterables(fn, rf, log, q)
        _pipeline_to_locals(fn, rf, log, q)
        _flags_from_tests(fn, rf, log, q)
        _selects_to_default_and_override(fn, rf, log, q)
        _rebind_params(fn, rf, log, q)
        _search_loops_to_flags(fn, rf, log, q)
        _cached_last_elements(fn, rf, log, q)
        _restore_bool_returns(fn, rf, log, q)
        _dictcomps_to_loops(fn, rf, log, q)
        _comprehension_vars_to_reference(fn, rf, log, q)
        _loops_to_comprehensions(fn, rf, log, q)
        _inline_literal_tuples(fn, rf, log, q)
        _unroll_literal_loops(fn, rf, log, q)
        n1 = len(log)
        _fuse_rebound_lookups(fn, rf, log, q)
        if len(log) > n1:
            _inline_hoisted(fn, rf, log, q)
        _const_attr_access(fn, log, q)
        _conjunction_ifs(fn, rf, log, q)
        _orient_ifs(fn, rf, log, q)
        _loops_to_reference(fn, rf, log, q)
        _SplitTupleAssign(rf, fn, log, q).visit(fn)
        _unpack_to_subscripts(fn, rf, log, q)
        _scalarise_tuple_locals(fn, rf, log, q)
        _merge_accumulators(fn, rf, log, q)
        _merge_forwarded_locals(fn, rf, log, q)
        _dissolve_built_locals(fn, rf, log, q)
        _explode_dict_displays(fn, rf, log, q)
        _accumulators_to_targets(fn, rf, log, q)
        _hoist_fresh_dicts(fn, rf, log, q)
        _dissolve_built_locals(fn, rf, log, q)
        _inline_indexed_comprehensions(fn, rf, log, q)
        _tuple_locals_to_lists(fn, rf, log, q)
        _temps_and_names(fn, rf, log, q)
        _comprehension_vars_to_reference(fn, rf, log, q)
        # loop headers over locals that only now carry their recorded names
        _loops_to_reference(fn, rf, log, q)
        _sink_shared_store(fn, rf, log, q)
        _rehoist(fn, rf, log, q)
        _index_to_unpack(fn, rf, log, q)
        _split_fused_updates(fn, rf, log, q)
        _flags_to_conditionals(fn, rf, log, q)
        _restore_bool_returns(fn, rf, log, q)
        _conjunction_ifs(fn, rf, log, q)
        _orient_ifs(fn, rf, log, q)
        _fold_foreign_continues(fn, rf, log, q)
        if len(log) > n0 or any(l.startswith(('inlined helper',
                                              'inlined nested helper'))
                                for l in log):
            ast.fix_missing_locations(fn)
            _renumber(fn)
    ast.fix_missing_locations(tree)
    return log
