"""Small syntactic queries shared by the rules."""
import ast

from .core import (AnalysisError, access_path, ancestors, call_name, const,
                   dotted, parent, src, stmt_targets, walk_no_nested)


def attr_calls(root, attr, nested=False):
    """Calls `<recv>.attr(...)` or bare `attr(...)` under root, in order."""
    it = ast.walk(root) if nested else walk_no_nested(root)
    out = []
    for n in it:
        if isinstance(n, ast.Call):
            f = n.func
            if (isinstance(f, ast.Attribute) and f.attr == attr) or \
                    (isinstance(f, ast.Name) and f.id == attr):
                out.append(n)
    out.sort(key=lambda c: (c.lineno, c.col_offset))
    return out


_assign_cache = {}


def assigns_of(root, name):
    """Assign/AugAssign statements (not nested defs) storing into Name."""
    tab = _assign_cache.get(id(root))
    if tab is None or tab[0] is not root:
        d = {}
        for n in walk_no_nested(root):
            if isinstance(n, (ast.Assign, ast.AugAssign, ast.AnnAssign,
                              ast.For, ast.With)):
                for t in stmt_targets(n):
                    if isinstance(t, ast.Name):
                        d.setdefault(t.id, []).append(n)
            elif isinstance(n, ast.comprehension):
                pass
        for l in d.values():
            l.sort(key=lambda s: s.lineno)
        tab = (root, d)
        _assign_cache[id(root)] = tab
    return list(tab[1].get(name, []))


def single_def(root, name):
    """Value expression of the only plain assignment `name = expr`;
    None if there is none or several."""
    ds = assigns_of(root, name)
    if len(ds) == 1 and isinstance(ds[0], ast.Assign) \
            and len(ds[0].targets) == 1 \
            and isinstance(ds[0].targets[0], ast.Name):
        return ds[0].value
    return None


def defs_of(root, name):
    """All value expressions plainly assigned to name (Assign only)."""
    out = []
    for s in assigns_of(root, name):
        if isinstance(s, ast.Assign) and any(
                isinstance(t, ast.Name) and t.id == name for t in s.targets):
            out.append(s.value)
        else:
            out.append(None)
    return out


def guards(node, stop=None):
    """[(test_expr, polarity)] of the enclosing if/while statements, inner
    first.  polarity False = node is in the else branch."""
    out = []
    child = node
    for a in ancestors(node):
        if a is stop or isinstance(a, (ast.FunctionDef, ast.AsyncFunctionDef,
                                       ast.ClassDef)):
            break
        if isinstance(a, ast.If):
            if _in_list(child, a.body):
                out.append((a.test, True))
            elif _in_list(child, a.orelse):
                out.append((a.test, False))
        elif isinstance(a, ast.While):
            if _in_list(child, a.body):
                out.append((a.test, True))
        child = a
    return out


def _in_list(node, lst):
    return any(node is x for x in lst)


def enclosing_loops(node):
    out = []
    for a in ancestors(node):
        if isinstance(a, (ast.FunctionDef, ast.AsyncFunctionDef)):
            break
        if isinstance(a, (ast.For, ast.While)):
            out.append(a)
    return out


def stores(root, nested=False):
    """[(target_expr, stmt)] for every Assign/AugAssign/Delete target."""
    out = []
    it = ast.walk(root) if nested else walk_no_nested(root)
    for n in it:
        if isinstance(n, (ast.Assign, ast.AugAssign, ast.AnnAssign,
                          ast.Delete)):
            for t in stmt_targets(n):
                out.append((t, n))
    out.sort(key=lambda t: (t[1].lineno, t[1].col_offset))
    return out


def stores_to_path(root, prefix):
    """Stores whose access path starts with prefix (tuple)."""
    out = []
    for t, st in stores(root):
        p = access_path(t)
        if p is not None and p[:len(prefix)] == tuple(prefix):
            out.append((t, st, p))
    return out


def reads_of_path(root, prefix, nested=False):
    """Load-context expressions whose access path starts with prefix; only
    maximal chains are returned."""
    out = []
    it = ast.walk(root) if nested else walk_no_nested(root)
    for n in it:
        if isinstance(n, (ast.Attribute, ast.Subscript, ast.Name)):
            par = parent(n)
            if isinstance(par, (ast.Attribute, ast.Subscript)) \
                    and par.value is n:
                continue     # not maximal
            p = access_path(n)
            if p is not None and p[:len(prefix)] == tuple(prefix):
                out.append((n, p))
    out.sort(key=lambda t: (t[0].lineno, t[0].col_offset))
    return out


def compare_parts(test):
    """(left, op_class, right) for a single binary comparison else None."""
    if isinstance(test, ast.Compare) and len(test.ops) == 1:
        return test.left, type(test.ops[0]), test.comparators[0]
    return None


def is_np_call(node, names):
    """np.<name>(...) / numpy.<name>(...) with name in names."""
    if not isinstance(node, ast.Call):
        return False
    n = call_name(node) or ''
    parts = n.split('.')
    return len(parts) == 2 and parts[0] in ('np', 'numpy') \
        and parts[1] in names


def kwarg(call, name, default=None):
    for k in call.keywords:
        if k.arg == name:
            return k.value
    return default


def literal_list(node):
    """Python value of a list/tuple/dict display of constants, else None."""
    try:
        return ast.literal_eval(node)
    except Exception:
        return None


def first_lineno_of(nodes):
    return min(getattr(n, 'lineno', 10**9) for n in nodes)


def property_return(repo, cls, name):
    """The single return expression of property `name` in class (MRO)."""
    fi = repo.lookup_method(cls, name)
    if fi is None or not fi.is_property:
        return None, None
    rets = [n for n in walk_no_nested(fi.node) if isinstance(n, ast.Return)]
    if len(rets) == 1:
        return fi, rets[0].value
    return fi, None


def resolve_self_props(repo, cls, expr, depth=3, keep=()):
    """Copy of expr in which every `self.<p>` naming a *trivial* read-only
    property of cls (body = optional docstring + `return E`, no setter
    involved in a read) is replaced by E, repeatedly up to depth levels: a
    getter that only renames a look-up is the look-up.  Properties named in
    `keep` (the vocabulary of the rule's expected text) stay as written."""
    def trivial(name):
        if name in keep:
            return None
        fi = repo.lookup_method(cls, name)
        if fi is None or not fi.is_property or fi.is_setter:
            return None
        body = list(fi.node.body)
        if body and isinstance(body[0], ast.Expr) and isinstance(
                body[0].value, ast.Constant) and isinstance(
                    body[0].value.value, str):
            body = body[1:]
        if len(body) == 1 and isinstance(body[0], ast.Return) and \
                body[0].value is not None and \
                [a.arg for a in fi.node.args.args] == ['self']:
            return body[0].value
        return None

    class Sub(ast.NodeTransformer):
        changed = False

        def visit_Attribute(self, n):
            self.generic_visit(n)
            if isinstance(n.ctx, ast.Load) and isinstance(
                    n.value, ast.Name) and n.value.id == 'self':
                e = trivial(n.attr)
                if e is not None:
                    self.changed = True
                    return _clone(e)
            return n
    e = _clone(expr)
    for _ in range(depth):
        s = Sub()
        e = s.visit(e)
        if not s.changed:
            break
    return ast.fix_missing_locations(e)


def _clone(expr):
    """Parent-link free copy of an expression."""
    return ast.parse(ast.unparse(expr), mode='eval').body


def expand_locals(root, expr, before=None, depth=3, keep=()):
    """Substitute local names that have exactly one plain definition (before
    a line, if given) by that definition, up to `depth` levels.  Loop
    variables and parameters stay symbolic."""
    import copy

    class Sub(ast.NodeTransformer):
        def __init__(self):
            self.changed = False

        def visit_Name(self, n):
            if isinstance(n.ctx, ast.Load) and n.id not in keep:
                ds = [a for a in assigns_of(root, n.id)
                      if before is None or a.lineno <= before]
                if len(ds) == 1 and isinstance(ds[0], ast.Assign) \
                        and len(ds[0].targets) == 1 \
                        and isinstance(ds[0].targets[0], ast.Name):
                    self.changed = True
                    return _clone(ds[0].value)
            return n
    e = _clone(expr)
    for _ in range(depth):
        s = Sub()
        e = s.visit(e)
        if not s.changed:
            break
    return ast.fix_missing_locations(e)


def value_at(root, expr, at_line, keep=(), depth=12):
    """Flow-sensitive straight-line expansion: every local read in `expr`
    (evaluated at line `at_line`) is replaced by the right-hand side of the
    last plain assignment to it that lexically encloses the use and is not
    followed by another binding of the name before the use; the substituted
    expression is expanded at the line of that assignment (so re-assignment
    chains x = f(x) unfold).  Names in `keep`, parameters, loop variables
    and names with a conditional / looped last definition stay symbolic."""
    def enclosing_blocks(line):
        out = []

        def rec(stmts):
            for st in stmts:
                if getattr(st, 'lineno', 0) <= line <= (getattr(
                        st, 'end_lineno', 0) or 0):
                    out.append(stmts)
                    for f in ('body', 'orelse', 'finalbody'):
                        b = getattr(st, f, None)
                        if isinstance(b, list) and b and isinstance(
                                b[0], ast.stmt):
                            if b[0].lineno <= line <= (b[-1].end_lineno or 0):
                                rec(b)
        rec(root.body if hasattr(root, 'body') else [])
        return out

    def expand(e, line, d):
        if d <= 0:
            return e
        blocks = enclosing_blocks(line)

        class Sub(ast.NodeTransformer):
            def visit_Name(self, n):
                if not isinstance(n.ctx, ast.Load) or n.id in keep:
                    return n
                allb = [a for a in assigns_of(root, n.id)
                        if a.lineno < line]
                if not allb:
                    return n
                last = max(allb, key=lambda a: a.lineno)
                if isinstance(last, ast.AugAssign) and isinstance(
                        last.target, ast.Name) and any(
                            last in b for b in blocks):
                    prev = expand(ast.Name(id=n.id, ctx=ast.Load()),
                                  last.lineno, d - 1)
                    rhs = expand(_clone(last.value), last.lineno, d - 1)
                    return ast.BinOp(left=prev, op=last.op, right=rhs)
                if not (isinstance(last, ast.Assign) and len(last.targets)
                        == 1 and isinstance(last.targets[0], ast.Name)):
                    return n
                if not any(last in b for b in blocks):
                    return n        # defined in a sibling / nested block
                return expand(_clone(last.value), last.lineno, d - 1)
        return Sub().visit(e)
    return ast.fix_missing_locations(expand(_clone(expr), at_line, depth))


def temp_def(root, expr):
    """If `expr` is a read of a local that merely names a value computed just
    before -- one plain assignment `x = E` in the whole function, in the same
    statement list as the statement that reads it and ahead of it, with no
    statement in between that mentions any name occurring in E (so nothing E
    reads can have been re-bound or mutated) -- return E, else `expr`."""
    if not (isinstance(expr, ast.Name) and isinstance(expr.ctx, ast.Load)):
        return expr
    d = assigns_of(root, expr.id)
    if not (len(d) == 1 and isinstance(d[0], ast.Assign) and
            len(d[0].targets) == 1 and isinstance(d[0].targets[0], ast.Name)):
        return expr
    d = d[0]
    use = expr
    while use is not None and not isinstance(use, ast.stmt):
        use = parent(use)
    if use is None:
        return expr
    blk = None
    host = parent(d)
    for f in ('body', 'orelse', 'finalbody'):
        b = getattr(host, f, None)
        if isinstance(b, list) and _in_list(d, b):
            blk = b
    if blk is None:
        return expr
    i = [k for k, st in enumerate(blk) if st is d][0]
    j = [k for k, st in enumerate(blk) if st is use]
    if not j or j[0] <= i:
        return expr
    operands = {n.id for n in ast.walk(d.value) if isinstance(n, ast.Name)}
    operands.add(expr.id)
    for st in blk[i + 1:j[0]]:
        if any(isinstance(n, ast.Name) and n.id in operands
               for n in ast.walk(st)):
            return expr
    return d.value


def linear_terms(e):
    """[(sign, source)] of a +/- chain; None if not a pure +/- chain."""
    out = []

    def rec(n, sgn):
        if isinstance(n, ast.BinOp) and isinstance(n.op, (ast.Add, ast.Sub)):
            rec(n.left, sgn)
            rec(n.right, sgn if isinstance(n.op, ast.Add) else -sgn)
        elif isinstance(n, ast.UnaryOp) and isinstance(n.op, ast.USub):
            rec(n.operand, -sgn)
        else:
            out.append((sgn, src(n)))
    rec(e, 1)
    return out


def eval_test(expr, env):
    """Three-valued evaluation (True/False/None=unknown) of a condition with
    the source texts in env bound to concrete Python values."""
    UNK = None

    def val(n):
        s = src(n)
        if s in env:
            return ('v', env[s])
        c = const(n, _NO)
        if c is not _NO:
            return ('v', c)
        if isinstance(n, ast.UnaryOp) and isinstance(n.op, ast.USub):
            v = val(n.operand)
            return ('v', -v[1]) if v and isinstance(v[1], (int, float)) else UNK
        if isinstance(n, ast.BinOp):
            l, r = val(n.left), val(n.right)
            if l and r and all(isinstance(x[1], (int, float)) for x in (l, r)):
                try:
                    if isinstance(n.op, ast.Add):
                        return ('v', l[1] + r[1])
                    if isinstance(n.op, ast.Sub):
                        return ('v', l[1] - r[1])
                    if isinstance(n.op, ast.Mult):
                        return ('v', l[1] * r[1])
                    if isinstance(n.op, ast.Div):
                        return ('v', l[1] / r[1])
                except ZeroDivisionError:
                    return UNK
        return UNK

    def ev(n):
        if isinstance(env.get(src(n)), bool):
            return env[src(n)]          # the whole (sub-)test is decided
        if isinstance(n, ast.UnaryOp) and isinstance(n.op, ast.Not):
            v = ev(n.operand)
            return None if v is None else (not v)
        if isinstance(n, ast.BoolOp):
            vs = [ev(x) for x in n.values]
            if isinstance(n.op, ast.And):
                if any(v is False for v in vs):
                    return False
                return True if all(v is True for v in vs) else None
            if any(v is True for v in vs):
                return True
            return False if all(v is False for v in vs) else None
        if isinstance(n, ast.Compare):
            l = val(n.left)
            res = True
            for op, r_ in zip(n.ops, n.comparators):
                r = val(r_)
                if not l or not r:
                    return None
                a, b = l[1], r[1]
                try:
                    if isinstance(op, ast.Lt):
                        ok = a < b
                    elif isinstance(op, ast.LtE):
                        ok = a <= b
                    elif isinstance(op, ast.Gt):
                        ok = a > b
                    elif isinstance(op, ast.GtE):
                        ok = a >= b
                    elif isinstance(op, ast.Eq):
                        ok = a == b
                    elif isinstance(op, ast.NotEq):
                        ok = a != b
                    elif isinstance(op, ast.Is):
                        ok = a is b
                    elif isinstance(op, ast.IsNot):
                        ok = a is not b
                    else:
                        return None
                except TypeError:
                    return None
                if not ok:
                    return False
                l = r
            return res
        v = val(n)
        if v:
            return bool(v[1])
        return None
    return ev(expr)


_NO = object()


def bounded_loop(fi, w, g):
    """Termination argument for a while loop.  Returns (ok, why).
    Accepted shapes:
      (a) the test has a conjunct `ctr < LIM`/`ctr <= LIM`;
      (b) the body contains `if ctr > LIM: <terminating statement>`
          on every path through the body;
    in both cases `ctr += positive constant` lies on every path through the
    body, ctr is never otherwise assigned inside the loop, and LIM is a
    constant, a parameter or a local with a single constant definition."""
    from . import dataflow
    tn = g.node_of(w)
    body_first = [s for s in tn.succ if dataflow._in_body(s, w)]
    cands = []
    conj = w.test.values if isinstance(w.test, ast.BoolOp) and isinstance(
        w.test.op, ast.And) else [w.test]
    for c in conj:
        cp = compare_parts(c)
        if cp and cp[1] in (ast.Lt, ast.LtE) and isinstance(cp[0], ast.Name):
            cands.append((cp[0].id, cp[2], None))
    for st in walk_no_nested(w):
        if isinstance(st, ast.If) and st is not w:
            cp = compare_parts(st.test)
            if cp and cp[1] in (ast.Gt, ast.GtE) and isinstance(
                    cp[0], ast.Name):
                n = g.node_of(st)
                # the true branch terminates
                tb = [s for s in n.succ if dataflow._branch_of(n, s) is True]
                if tb and all(g.exit.id not in g.reachable_from(b) and
                              tn.id not in g.reachable_from(b) for b in tb):
                    cands.append((cp[0].id, cp[2], n))
    for ctr, lim, guard in cands:
        incs = [g.node_of(st) for st in walk_no_nested(w)
                if isinstance(st, ast.AugAssign) and src(st.target) == ctr
                and isinstance(st.op, ast.Add)
                and isinstance(const(st.value), (int, float))
                and const(st.value) > 0]
        if not incs:
            continue
        if any(not (b in incs) and g.path_exists(b, tn, avoid=incs)
               for b in body_first):
            continue
        if guard is not None and any(
                not (b is guard) and g.path_exists(b, tn, avoid=[guard])
                for b in body_first):
            continue
        resets = [st for st in walk_no_nested(w) if isinstance(st, ast.Assign)
                  and any(src(t) == ctr for t in st.targets)]
        if resets:
            continue
        limv = const(lim)
        if limv is None and isinstance(lim, ast.Name):
            d = single_def(fi.node, lim.id)
            if d is not None and const(d) is not None:
                limv = const(d)
            elif lim.id in fi.params and not assigns_of(fi.node, lim.id):
                limv = 'param:' + lim.id
        if limv is None:
            continue
        return True, 'counter %s, limit %s%s' % (
            ctr, limv, ', guarded exit' if guard is not None else '')
    return False, 'no counter with an increment on every path and a limit'


def const_eval(node, names=None):
    """Constant folding of literal arithmetic (lists/tuples/dicts of numbers,
    np.pi, np.sqrt(const), module-level constant names in `names`).
    Returns the Python value or raises ValueError."""
    import math
    names = names or {}

    def ev(n):
        c = const(n, _NO)
        if c is not _NO:
            return c
        if isinstance(n, (ast.List, ast.Tuple)):
            v = [ev(e) for e in n.elts]
            return v if isinstance(n, ast.List) else tuple(v)
        if isinstance(n, ast.Dict):
            return {ev(k): ev(v) for k, v in zip(n.keys, n.values)}
        s = src(n)
        if s in ('np.pi', 'math.pi', 'numpy.pi'):
            return math.pi
        if isinstance(n, ast.Name) and n.id in names:
            return names[n.id]
        if isinstance(n, ast.UnaryOp) and isinstance(n.op, ast.USub):
            return -ev(n.operand)
        if isinstance(n, ast.BinOp):
            l, r = ev(n.left), ev(n.right)
            if isinstance(n.op, ast.Add):
                return l + r
            if isinstance(n.op, ast.Sub):
                return l - r
            if isinstance(n.op, ast.Mult):
                return l * r
            if isinstance(n.op, ast.Div):
                return l / r
            if isinstance(n.op, ast.Pow):
                return l ** r
        if isinstance(n, ast.Call) and call_name(n) in ('np.sqrt',
                                                        'math.sqrt') \
                and len(n.args) == 1:
            return math.sqrt(ev(n.args[0]))
        if isinstance(n, ast.Subscript):
            v = ev(n.value)
            if isinstance(n.slice, ast.Slice):
                lo = ev(n.slice.lower) if n.slice.lower else None
                hi = ev(n.slice.upper) if n.slice.upper else None
                return v[lo:hi]
            return v[ev(n.slice)]
        raise ValueError('not a constant expression: ' + s)
    return ev(node)
