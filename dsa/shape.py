"""D_shape: record shapes of the dictionaries returned by the correlation
modules' calc_constants(), inferred from the AST (K5)."""
import ast

from .core import (AnalysisError, call_name, const, src, walk_no_nested,
                   dotted)
from . import util as U

NONE = ('none',)
ARRAY = ('array',)
LIST = ('list',)
SCALAR = ('scalar',)
OPAQUE = ('opaque',)
TUPLE = ('tuple',)


def D(d):
    return ('dict', d)


def fmt(s, depth=0):
    if s[0] == 'tuple' and len(s) > 1:
        return '(' + ', '.join(fmt(x, depth + 1) for x in s[1]) + ')'
    if s[0] == 'dict':
        if depth > 2:
            return '{...}'
        return '{' + ', '.join('%s: %s' % (k, fmt(v, depth + 1))
                               for k, v in sorted(s[1].items(), key=str)) + '}'
    return s[0]


class ShapeInfer:
    def __init__(self, repo, resolver):
        self.repo = repo
        self.res = resolver
        self.memo = {}
        self.stack = set()

    def ret_shape(self, fi):
        """Shape of the value returned by function fi."""
        if fi.full in self.memo:
            return self.memo[fi.full]
        if fi.full in self.stack:
            return OPAQUE
        self.stack.add(fi.full)
        try:
            s = self._infer(fi)
        finally:
            self.stack.discard(fi.full)
        self.memo[fi.full] = s
        return s

    def _infer(self, fi):
        env = {}
        rets = []
        self._block(fi, fi.node.body, env, rets)
        if not rets:
            return NONE
        out = rets[0]
        for r in rets[1:]:
            out = self._join(out, r)
        return out

    def _join(self, a, b):
        if a == b:
            return a
        # a return that merely hands back a stored constant (opaque) joins
        # optimistically with the computed shape of the other path
        if a == OPAQUE:
            return b
        if b == OPAQUE:
            return a
        if a[0] == 'tuple' and b[0] == 'tuple' and len(a) > 1 and \
                len(b) > 1 and len(a[1]) == len(b[1]):
            return ('tuple', [self._join(x, y) for x, y in zip(a[1], b[1])])
        if a[0] == 'dict' and b[0] == 'dict':
            keys = set(a[1]) & set(b[1])
            return D({k: self._join(a[1][k], b[1][k]) for k in keys})
        return OPAQUE

    def _block(self, fi, stmts, env, rets):
        for st in stmts:
            if isinstance(st, ast.Assign):
                v = self.expr(fi, st.value, env)
                for t in st.targets:
                    self._store(fi, t, v, env, st)
            elif isinstance(st, ast.AugAssign):
                pass
            elif isinstance(st, ast.Delete):
                for t in st.targets:
                    if isinstance(t, ast.Subscript) and isinstance(
                            t.value, ast.Name) and t.value.id in env and \
                            env[t.value.id][0] == 'dict':
                        k = const(t.slice)
                        d = dict(env[t.value.id][1])
                        d.pop(k, None)
                        env[t.value.id] = D(d)
            elif isinstance(st, ast.For):
                lit = U.literal_list(st.iter)
                if isinstance(lit, (list, tuple)) and isinstance(
                        st.target, ast.Name):
                    for val in lit:
                        env2 = env
                        env2['@' + st.target.id] = val
                        self._block(fi, st.body, env2, rets)
                    env.pop('@' + st.target.id, None)
                else:
                    self._block(fi, st.body, env, rets)
            elif isinstance(st, ast.If):
                e1 = dict(env)
                e2 = dict(env)
                self._block(fi, st.body, e1, rets)
                self._block(fi, st.orelse, e2, rets)
                for k in set(e1) | set(e2):
                    if k in e1 and k in e2:
                        env[k] = self._join(e1[k], e2[k])
                    else:
                        env[k] = e1.get(k, e2.get(k))
            elif isinstance(st, ast.Try):
                self._block(fi, st.body, env, rets)
                for h in st.handlers:
                    self._block(fi, h.body, dict(env), rets)
                self._block(fi, st.orelse, env, rets)
            elif isinstance(st, ast.With):
                self._block(fi, st.body, env, rets)
            elif isinstance(st, ast.Return):
                rets.append(self.expr(fi, st.value, env)
                            if st.value is not None else NONE)

    def _key(self, node, env):
        c = const(node)
        if isinstance(c, (str, int)) and not isinstance(c, bool):
            return c
        if isinstance(node, ast.Name) and ('@' + node.id) in env:
            return env['@' + node.id]
        return None

    def _store(self, fi, t, v, env, st):
        if isinstance(t, (ast.Tuple, ast.List)):
            for i, e in enumerate(t.elts):
                if v[0] == 'tuple' and len(v) > 1 and i < len(v[1]):
                    self._store(fi, e, v[1][i], env, st)
                else:
                    self._store(fi, e, OPAQUE, env, st)
            return
        if isinstance(t, ast.Name):
            env[t.id] = v
        elif isinstance(t, ast.Subscript):
            # c['k'] = v  /  c['a']['b'] = v
            chain = []
            n = t
            while isinstance(n, ast.Subscript):
                chain.append(n.slice)
                n = n.value
            chain.reverse()
            if isinstance(n, ast.Name) and n.id in env and \
                    env[n.id][0] == 'dict':
                keys = [self._key(k, env) for k in chain]
                if keys[0] is None:
                    return
                env[n.id] = self._set(env[n.id], keys, v)

    def _set(self, shape, keys, v):
        if shape[0] != 'dict':
            return shape
        d = dict(shape[1])
        if len(keys) == 1:
            d[keys[0]] = v
        else:
            sub = d.get(keys[0], OPAQUE)
            if keys[1] is None:
                return D(d)
            d[keys[0]] = self._set(sub, keys[1:], v) if sub[0] == 'dict' \
                else sub
        return D(d)

    def expr(self, fi, e, env):
        if e is None:
            return NONE
        c = const(e, '__no__')
        if c is None:
            return NONE
        if c != '__no__':
            return SCALAR
        if isinstance(e, ast.Dict):
            d = {}
            for k, v in zip(e.keys, e.values):
                kk = self._key(k, env) if k is not None else None
                if kk is not None:
                    d[kk] = self.expr(fi, v, env)
            return D(d)
        if isinstance(e, (ast.List, ast.ListComp)):
            return LIST
        if isinstance(e, ast.Tuple):
            return ('tuple', [self.expr(fi, x, env) for x in e.elts])
        if isinstance(e, ast.Name):
            return env.get(e.id, OPAQUE)
        if isinstance(e, ast.Subscript):
            base = self.expr(fi, e.value, env)
            k = self._key(e.slice, env)
            if base[0] == 'dict' and k in base[1]:
                return base[1][k]
            if base[0] in ('array', 'list'):
                return OPAQUE
            return OPAQUE
        if isinstance(e, ast.BinOp):
            l, r = self.expr(fi, e.left, env), self.expr(fi, e.right, env)
            if ARRAY in (l, r):
                return ARRAY
            if l == r == SCALAR:
                return SCALAR
            return OPAQUE
        if isinstance(e, ast.Call):
            nm = call_name(e) or ''
            if nm in ('np.array', 'np.zeros', 'np.ones', 'np.arange',
                      'np.asarray', 'np.linspace', 'np.full', 'np.dot',
                      'np.sqrt', 'np.power', 'np.log10', 'np.exp'):
                return ARRAY
            if nm in ('float', 'int', 'len', 'min', 'max', 'sum'):
                return SCALAR
            if nm == 'dict':
                return D({})
            cs, how = self.res.callees(fi, e)
            if how not in ('by-name', 'external', 'unresolved') and \
                    len(cs) == 1:
                return self.ret_shape(cs[0])
            return OPAQUE
        return OPAQUE


def lookup(shape, path):
    """Walk a key path through a shape.
    -> ('ok', leaf shape) | ('raise', exception name, depth) |
       ('unknown', depth)"""
    cur = shape
    for i, k in enumerate(path):
        if cur[0] == 'none':
            return ('raise', 'TypeError', i)
        if cur[0] == 'dict':
            if k == '*':
                vals = list(cur[1].values())
                if not vals:
                    return ('unknown', i)
                cur = vals[0]
                continue
            if k not in cur[1]:
                return ('raise', 'KeyError', i)
            cur = cur[1][k]
            continue
        if cur[0] == 'array':
            if isinstance(k, str) and k != '*':
                return ('raise', 'IndexError', i)
            cur = OPAQUE
            continue
        if cur[0] in ('list', 'tuple'):
            if isinstance(k, str) and k != '*':
                return ('raise', 'TypeError', i)
            if cur[0] == 'tuple' and len(cur) > 1 and isinstance(k, int) \
                    and -len(cur[1]) <= k < len(cur[1]):
                cur = cur[1][k]
            else:
                cur = OPAQUE
            continue
        if cur[0] == 'scalar':
            return ('raise', 'TypeError', i)
        return ('unknown', i)
    return ('ok', cur)
