"""Resolve subscript chains on the parsed-input dictionary to schema paths."""
import ast

from .core import const, src, parent
from . import util as U

STAR = '*'


def _loop_values(func_node, name, at_line):
    """Possible constant values of local `name` at a use: literal-list loop
    variable -> list of constants; single constant def -> [c]; else None."""
    defs = U.assigns_of(func_node, name)
    if not defs:
        return None
    vals = []
    for d in defs:
        if isinstance(d, ast.For) and src(d.target) == name:
            lit = U.literal_list(d.iter)
            if isinstance(lit, (list, tuple)) and all(
                    isinstance(x, (str, int)) for x in lit):
                # only if the use is inside this loop
                if d.lineno <= at_line <= (d.end_lineno or at_line):
                    return list(lit)
                continue
            return None
        if isinstance(d, ast.Assign) and len(d.targets) == 1 and \
                isinstance(d.targets[0], ast.Name):
            c = const(d.value)
            if isinstance(c, (str, int)) and not isinstance(c, bool):
                vals.append((d.lineno, c))
            else:
                return None
        else:
            return None
    before = [c for ln, c in vals if ln <= at_line]
    if before:
        return [before[-1]]
    return None


def chain(expr):
    """(root expr, [subscript slice nodes]) for x[a][b][c]; .get(k) and
    .keys()/.values()/.items() calls are looked through."""
    subs = []
    n = expr
    while True:
        if isinstance(n, ast.Subscript):
            subs.append(n.slice)
            n = n.value
        elif isinstance(n, ast.Call) and isinstance(n.func, ast.Attribute) \
                and n.func.attr == 'get' and n.args:
            subs.append(n.args[0])
            n = n.func.value
        elif isinstance(n, ast.Call) and isinstance(n.func, ast.Attribute) \
                and n.func.attr in ('keys', 'values', 'items') and not n.args:
            n = n.func.value
        else:
            break
    subs.reverse()
    return n, subs


def resolve(func_node, expr, roots, aliases=None, line=None):
    """Schema path patterns denoted by expr, or None if expr is not rooted
    in the input dictionary.  roots: set of source strings denoting the data
    dict (e.g. {'data', 'self.data'}).  aliases: {local name: [paths]}."""
    if isinstance(expr, (ast.BoolOp, ast.IfExp)):
        # `a or []`, `a if c else b`: may denote any operand
        parts = expr.values if isinstance(expr, ast.BoolOp) else \
            [expr.body, expr.orelse]
        out = []
        for q in parts:
            r = resolve(func_node, q, roots, aliases, line)
            if r:
                out += r
        return sorted(set(out)) or None
    root, subs = chain(expr)
    rs = src(root)
    if rs in roots:
        base = [()]
    elif aliases and isinstance(root, ast.Name) and root.id in aliases:
        base = aliases[root.id]
    else:
        return None
    if line is None:
        line = getattr(expr, 'lineno', 0)
    paths = list(base)
    for s in subs:
        c = const(s)
        if isinstance(c, bool):
            c = None
        if isinstance(c, (str, int)):
            opts = [c]
        elif isinstance(s, ast.Name):
            opts = _loop_values(func_node, s.id, line) or [STAR]
        else:
            opts = [STAR]
        paths = [p + (o if isinstance(o, str) else STAR,)
                 for p in paths for o in opts]
    return paths


def local_aliases(func_node, roots, max_iter=4):
    """{name: [paths]} for locals bound to sub-dicts of the input: plain
    assignments `x = data['A'][a]` and loop variables over input dicts
    (`for a in data['Assembly']` binds a *key*, not a dict: ignored)."""
    al = {}
    for _ in range(max_iter):
        changed = False
        for n in U.walk_no_nested(func_node):
            if isinstance(n, ast.Assign) and len(n.targets) == 1 and \
                    isinstance(n.targets[0], ast.Name):
                p = resolve(func_node, n.value, roots, al)
                nm = n.targets[0].id
                if p is not None and al.get(nm) != p:
                    # a name bound several times to different things: merge
                    al[nm] = sorted(set(al.get(nm, []) + p))
                    changed = True
        if not changed:
            break
    return al


def match_schema(path, keys, sections):
    """Match a resolved path against the schema.
    -> ('key', Key) | ('section', path) | ('list', Key) element of a list key
       | ('unknown', depth)."""
    cur = ()
    i = 0
    while i < len(path):
        comp = path[i]
        nxt = cur + (comp,)
        if comp != STAR and nxt in keys:
            k = keys[nxt]
            if i == len(path) - 1:
                return ('key', k)
            return ('list', k)
        if comp != STAR and nxt in sections:
            cur = nxt
        elif cur + ('__many__',) in sections:
            cur = cur + ('__many__',)
        else:
            return ('unknown', i)
        i += 1
    return ('section', cur)


def fmt(path):
    return '/'.join(path)


# ---------------------------------------------------------------------------
# Interprocedural binding of parameters to input sub-dictionaries

BASE_ROOTS = {'inp.data', 'dassh_input.data', 'dassh_inp.data',
              'input_obj.data', 'dassh_input_obj.data'}


_FRESH = {'names': None}


def _is_fresh_call(v):
    return isinstance(v, ast.Call) and (
        (isinstance(v.func, ast.Attribute) and v.func.attr == 'clone') or
        (src(v.func) in ('copy.deepcopy', 'deepcopy')) or
        (_FRESH['names'] and isinstance(v.func, ast.Attribute) and
         v.func.attr in _FRESH['names']))


def init_fresh_returners(repo):
    """Names of package methods/functions that return a clone / deep copy
    of the input they hold (e.g. Orificing._setup_input_perfect)."""
    names = set()
    _FRESH['names'] = names
    for _ in range(3):
        for fi in repo.all_funcs():
            rets = [r for r in U.walk_no_nested(fi.node)
                    if isinstance(r, ast.Return) and r.value is not None]
            if not rets:
                continue
            ok = True
            for r in rets:
                if isinstance(r.value, ast.Name):
                    defs = [a for a in U.assigns_of(fi.node, r.value.id)
                            if isinstance(a, ast.Assign)]
                    if not defs or not all(_is_fresh_call(a.value)
                                           for a in defs):
                        ok = False
                elif not _is_fresh_call(r.value):
                    ok = False
            if ok and fi.name not in ('clone',):
                names.add(fi.name)
    return names


def roots_for(fi):
    roots = set(BASE_ROOTS)
    # a local re-bound to a clone / deep copy of the input is a fresh object
    # (DASSH_Input.clone deep-copies .data): barrier
    for r in list(roots):
        base = r.split('.')[0]
        for a in U.assigns_of(fi.node, base):
            v = getattr(a, 'value', None)
            if _is_fresh_call(v):
                roots.discard(r)
    if fi.cls is not None and fi.cls.name in ('DASSH_Input',
                                              'DASSHPower_Input'):
        roots.add('self.data')
    if fi.mod.name == 'dassh.read_input' and fi.cls is None \
            and 'data' in fi.params:
        roots.add('data')
    return roots


def propagate_params(repo, resolver, max_iter=6):
    """{func.full: {param: [paths]}}: parameters that receive a sub-dict of
    the parsed input at some call site (fixpoint over the call graph)."""
    from .resolve import bind_args
    bound = {}
    for _ in range(max_iter):
        changed = False
        for fi in repo.all_funcs():
            if fi.mod.name.startswith('dassh.plot') or \
                    fi.mod.name.startswith('dassh.py4c'):
                continue
            roots = roots_for(fi)
            al = dict(bound.get(fi.full, {}))
            al.update(local_aliases_with(fi.node, roots, al))
            for c in U.walk_no_nested(fi.node):
                if not isinstance(c, ast.Call):
                    continue
                cs, how = resolver.callees(fi, c)
                if how in ('by-name', 'external', 'unresolved'):
                    continue
                for callee in cs:
                    for p, a in bind_args(c, callee).items():
                        paths = resolve(fi.node, a, roots, al)
                        if paths is None:
                            continue
                        cur = bound.setdefault(callee.full, {})
                        new = sorted(set(cur.get(p, []) + paths))
                        if new != cur.get(p):
                            cur[p] = new
                            changed = True
        if not changed:
            break
    return bound


def local_aliases_with(func_node, roots, seed):
    al = dict(seed)
    for _ in range(4):
        changed = False
        for n in U.walk_no_nested(func_node):
            if isinstance(n, ast.Assign) and len(n.targets) == 1 and \
                    isinstance(n.targets[0], ast.Name):
                p = resolve(func_node, n.value, roots, al)
                nm = n.targets[0].id
                if p is not None:
                    new = sorted(set(al.get(nm, []) + p))
                    if new != al.get(nm):
                        al[nm] = new
                        changed = True
        if not changed:
            break
    return al
