"""Parser for the ConfigObj validation spec dassh/input_template.txt (K1)."""
import re

from .core import AnalysisError

_sec = re.compile(r'^(\[+)\s*([^\]]+?)\s*(\]+)\s*$')
_key = re.compile(r'^([A-Za-z_][A-Za-z0-9_]*)\s*=\s*([A-Za-z_]+)\s*(\((.*)\))?\s*$')


class Key:
    def __init__(self, path, typ, args, lineno):
        self.path = path      # tuple of section names + key; '__many__' kept
        self.typ = typ
        self.args = args      # raw argument string
        self.lineno = lineno

    @property
    def options(self):
        if self.typ != 'option':
            return None
        out = []
        for a in _split_args(self.args):
            if a.startswith('default='):
                continue
            out.append(a.strip().strip('\'"'))
        return out

    def arg(self, name):
        for a in _split_args(self.args):
            if a.startswith(name + '='):
                return a.split('=', 1)[1].strip()
        return None

    def __repr__(self):
        return '<Key %s %s(%s)>' % ('/'.join(self.path), self.typ, self.args)


def _split_args(s):
    out, depth, cur = [], 0, ''
    for ch in s or '':
        if ch == '(':
            depth += 1
        elif ch == ')':
            depth -= 1
        if ch == ',' and depth == 0:
            out.append(cur.strip())
            cur = ''
        else:
            cur += ch
    if cur.strip():
        out.append(cur.strip())
    return out


def parse_template(text):
    """-> {path tuple: Key}, set of section paths."""
    if text is None:
        raise AnalysisError('dassh/input_template.txt vanished')
    keys, sections = {}, set()
    stack = []
    for i, raw in enumerate(text.splitlines(), 1):
        line = raw.split('#', 1)[0].rstrip() if not raw.strip().startswith(
            '#') else ''
        line = raw.strip()
        if not line or line.startswith('#'):
            continue
        m = _sec.match(line)
        if m:
            depth = len(m.group(1))
            if len(m.group(3)) != depth:
                raise AnalysisError('template line %d: unbalanced [' % i)
            stack = stack[:depth - 1] + [m.group(2)]
            sections.add(tuple(stack))
            continue
        m = _key.match(line)
        if not m:
            raise AnalysisError('template line %d not understood: %r'
                                % (i, line))
        path = tuple(stack) + (m.group(1),)
        keys[path] = Key(path, m.group(2), m.group(4) or '', i)
    return keys, sections
