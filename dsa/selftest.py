"""Thorough tier: checker self-test on single-construct mutants and on
behaviour-preserving variants of the *current* tree (DESIGN 2.8).

Each corpus entry is a textual edit of one file of /repo/dassh.  A scratch
copy of the package is made under $TMPDIR (or /dev/shm), one edit is
applied, and the property's quick check is run on the copy (--repo).  A
mutant must be reported (exit 1) by the expected rule; a benign variant must
stay silent (exit 0).  An edit whose anchor text is not present any more is
skipped and counted; a self-test failure is an analysis error (exit 2), not
a property violation.  The scratch copy is removed on exit.
"""
import concurrent.futures
import json
import os
import shutil
import subprocess
import sys
import tempfile

from .core import AnalysisError, VERIF
from . import core


def _load_corpus(prop):
    p = os.path.join(VERIF, 'selftest', prop + '.json')
    if not os.path.exists(p):
        return []
    with open(p) as fh:
        return json.load(fh)


def _load_seeded(prop):
    """Seeded changes written by the adversarial rounds (seeded/<id>/): each
    is a mutant for the property it was written against."""
    out = []
    root = os.path.join(VERIF, 'seeded')
    if not os.path.isdir(root):
        return out
    for sid in sorted(os.listdir(root)):
        mp = os.path.join(root, sid, 'meta.json')
        pp = os.path.join(root, sid, 'patch.diff')
        if not (os.path.exists(mp) and os.path.exists(pp)):
            continue
        with open(mp) as fh:
            meta = json.load(fh)
        if meta.get('property') != prop or meta.get('selftest') is False:
            continue
        out.append({'name': 'seeded/' + sid, 'kind': 'mutant',
                    'patch': pp, 'expect': prop})
    return out


def _load_benign(prop):
    """Behaviour-preserving refactorings written by sub-agents (benign/):
    every patch that touches a file this property is anchored in must leave
    the check silent."""
    out = []
    root = os.path.join(VERIF, 'benign')
    if not os.path.isdir(root):
        return out
    files = set()
    try:
        with open(os.path.join(VERIF, 'properties.jsonl')) as fh:
            for line in fh:
                d = json.loads(line)
                if d['id'] == prop:
                    files = set(d.get('anchors', {}).get('files', []))
    except OSError:
        return out
    # patches on which a check still raises a false alarm / loses an anchor
    # (documented in DESIGN.md 2a and benign/UNRESOLVED.txt) are not part of
    # the self-test until the machinery handles them
    unresolved = set()
    try:
        with open(os.path.join(root, 'UNRESOLVED.txt')) as fh:
            unresolved = {l.split()[0] for l in fh
                          if l.strip() and not l.startswith('#')}
    except OSError:
        pass
    for d in sorted(os.listdir(root)):
        dd = os.path.join(root, d)
        if not os.path.isdir(dd):
            continue
        for f in sorted(os.listdir(dd)):
            if not f.endswith('.diff'):
                continue
            if '%s/%s' % (d, f) in unresolved:
                continue
            pp = os.path.join(dd, f)
            with open(pp) as fh:
                touched = {l.split(' b/')[-1].strip() for l in fh
                           if l.startswith('diff --git')}
            if touched & files:
                out.append({'name': 'benign/%s/%s' % (d, f), 'kind': 'benign',
                            'patch': pp})
    return out


def _run_one(args):
    prop, base, entry, idx = args
    d = tempfile.mkdtemp(prefix='dsa-st-%s-%d-' % (prop, idx),
                         dir=os.path.dirname(base))
    try:
        shutil.copytree(os.path.join(base, 'dassh'), os.path.join(d, 'dassh'))
        if 'patch' in entry:
            r = subprocess.run(['patch', '-p1', '-s', '-f', '-d', d, '-i',
                                entry['patch']], capture_output=True,
                               text=True)
            if r.returncode != 0:
                return idx, 'skipped', 'patch does not apply'
            r = subprocess.run(
                [sys.executable, os.path.join(VERIF, 'check'), prop,
                 '--repo', d, '--tier', 'quick'], capture_output=True,
                text=True, timeout=300)
            viol = [l.strip() for l in r.stdout.splitlines()
                    if 'VIOLATED' in l]
            return idx, r.returncode, viol
        path = os.path.join(d, entry['file'])
        with open(path) as fh:
            s = fh.read()
        if s.count(entry['old']) < 1:
            return idx, 'skipped', 'anchor text not present'
        s = s.replace(entry['old'], entry['new'], 1)
        try:
            compile(s, path, 'exec')
        except SyntaxError as e:
            return idx, 'broken', 'edit does not compile: %s' % e
        with open(path, 'w') as fh:
            fh.write(s)
        r = subprocess.run(
            [sys.executable, os.path.join(VERIF, 'check'), prop, '--repo', d,
             '--tier', 'quick'], capture_output=True, text=True, timeout=300)
        viol = [l.strip() for l in r.stdout.splitlines() if 'VIOLATED' in l]
        return idx, r.returncode, viol
    finally:
        shutil.rmtree(d, ignore_errors=True)


def run(ctx, prop):
    corpus = _load_corpus(prop) + _load_seeded(prop) + _load_benign(prop)
    if not corpus:
        ctx.extra['selftest'] = 'no corpus for this property'
        return
    root = os.environ.get('TMPDIR') or ('/dev/shm' if os.path.isdir(
        '/dev/shm') else tempfile.gettempdir())
    base = tempfile.mkdtemp(prefix='dassh-verif-', dir=root)
    try:
        shutil.copytree(os.path.join(core.REPO, 'dassh'),
                        os.path.join(base, 'dassh'),
                        ignore=shutil.ignore_patterns('__pycache__'))
        jobs = [(prop, base, e, i) for i, e in enumerate(corpus)]
        results = {}
        with concurrent.futures.ThreadPoolExecutor(max_workers=16) as ex:
            for idx, rc, info in ex.map(_run_one, jobs):
                results[idx] = (rc, info)
    finally:
        shutil.rmtree(base, ignore_errors=True)
    failures = []
    summary = []
    n_mut = n_ben = n_skip = 0
    for i, e in enumerate(corpus):
        rc, info = results[i]
        kind = e.get('kind', 'mutant')
        name = e.get('name', '%s#%d' % (prop, i))
        if rc == 'skipped':
            n_skip += 1
            summary.append({'name': name, 'kind': kind, 'result': 'skipped'})
            continue
        if rc == 'broken':
            failures.append('%s: %s' % (name, info))
            continue
        if kind == 'mutant':
            n_mut += 1
            want = e.get('expect', prop)
            hit = [v for v in info if want in v]
            ok = rc == 1 and bool(hit)
            summary.append({'name': name, 'kind': kind, 'exit': rc,
                            'reported_by': sorted({v.split()[1] for v in info}
                                                  )[:4], 'ok': ok})
            if not ok:
                failures.append('mutant %s not reported by %s (exit %s; %s)'
                                % (name, want, rc, info[:2]))
        else:
            n_ben += 1
            ok = rc == 0
            summary.append({'name': name, 'kind': kind, 'exit': rc, 'ok': ok})
            if not ok:
                failures.append('benign variant %s raised an alarm (exit %s; '
                                '%s)' % (name, rc, info[:2]))
    ctx.extra['selftest'] = {'mutants_run': n_mut, 'benign_run': n_ben,
                             'skipped_anchor_missing': n_skip,
                             'results': summary}
    for s in summary:
        if s.get('result') == 'skipped':
            continue
        ctx._inst(prop + '.selftest', 'scratch copy of /repo', None,
                  'holds' if s.get('ok') else 'FAILED',
                  '%s %s -> exit %s' % (s['kind'], s['name'], s.get('exit')))
    print('%s self-test: %d mutants, %d benign variants, %d skipped'
          % (prop, n_mut, n_ben, n_skip))
    if failures:
        raise AnalysisError('checker self-test failed: ' + ' | '.join(
            failures[:5]))
    if n_mut + n_ben == 0:
        ctx.extra['selftest']['note'] = 'no corpus entry applied to the ' \
            'current tree'
